//! Worlds: plain account maps, conversion to revm databases, and the independent commit rule.
use revm::db::{CacheDB, EmptyDB};
use revm::primitives::{
    keccak256, AccountInfo, Address, Bytecode, Bytes, EvmState, SpecId, B256, KECCAK_EMPTY, U256,
};
use serde::{Deserialize, Serialize};
use std::collections::BTreeMap;

#[derive(Clone, Debug, Default, PartialEq, Eq, Serialize, Deserialize, Hash)]
pub struct PlainAcc {
    pub balance: U256,
    pub nonce: u64,
    pub code: Bytes,
    pub storage: BTreeMap<U256, U256>,
}
impl PlainAcc {
    pub fn eoa(balance: u64) -> Self {
        PlainAcc { balance: U256::from(balance), ..Default::default() }
    }
    pub fn contract(code: &[u8]) -> Self {
        PlainAcc { nonce: 1, code: Bytes::copy_from_slice(code), ..Default::default() }
    }
    pub fn with_balance(mut self, b: U256) -> Self {
        self.balance = b;
        self
    }
    pub fn with_storage(mut self, k: u64, v: u64) -> Self {
        self.storage.insert(U256::from(k), U256::from(v));
        self
    }
    pub fn with_nonce(mut self, n: u64) -> Self {
        self.nonce = n;
        self
    }
    pub fn code_hash(&self) -> B256 {
        if self.code.is_empty() {
            KECCAK_EMPTY
        } else {
            keccak256(&self.code)
        }
    }
    pub fn is_empty(&self) -> bool {
        self.balance.is_zero() && self.nonce == 0 && self.code.is_empty()
    }
    pub fn info(&self) -> AccountInfo {
        AccountInfo {
            balance: self.balance,
            nonce: self.nonce,
            code_hash: self.code_hash(),
            // as a database would hand it out: designators and EOF containers are recognised
            code: Some(Bytecode::new_raw_checked(self.code.clone()).unwrap_or_else(|_| Bytecode::new_legacy(self.code.clone()))),
        }
    }
}

pub type Plain = BTreeMap<Address, PlainAcc>;

use revm::primitives::address;
pub const SENDER: Address = address!("1000000000000000000000000000000000000001");
pub const COINBASE: Address = address!("c014ba5e00000000000000000000000000000000");
pub const A: Address = address!("a000000000000000000000000000000000000000");
pub const B: Address = address!("b000000000000000000000000000000000000000");
pub const C: Address = address!("c000000000000000000000000000000000000000");
pub const EMPTY: Address = address!("e000000000000000000000000000000000000000"); // absent
pub const DUST: Address = address!("d000000000000000000000000000000000000000"); // existing empty account
pub const RICH: Address = address!("f000000000000000000000000000000000000000"); // 2^256-1
pub const STOR: Address = address!("5000000000000000000000000000000000000000"); // nonce 0, no code, storage
pub const AUTH: Address = address!("7702000000000000000000000000000000000000"); // EOA with delegation

/// base world: funded sender; everything else is added by the property
pub fn base_world() -> Plain {
    let mut p = Plain::new();
    p.insert(SENDER, PlainAcc { balance: U256::from(1u64) << 100, ..Default::default() });
    p
}

pub fn to_cachedb(p: &Plain) -> CacheDB<EmptyDB> {
    let mut db = CacheDB::new(EmptyDB::default());
    for (a, acc) in p {
        db.insert_account_info(*a, acc.info());
        for (k, v) in &acc.storage {
            db.insert_account_storage(*a, *k, *v).unwrap();
        }
    }
    db
}

/// Independent commit rule: apply the state returned by a transaction to a plain map.
/// touched only; self-destructed => delete; created => storage starts empty; then EIP-161 deletion of
/// touched empty accounts once state clearing is active.
pub fn commit_plain(p: &mut Plain, st: &EvmState, spec: SpecId) {
    let state_clear = spec.is_enabled_in(SpecId::SPURIOUS_DRAGON);
    for (a, acc) in st {
        if !acc.is_touched() {
            continue;
        }
        if acc.is_selfdestructed() {
            p.remove(a);
            continue;
        }
        let e = p.entry(*a).or_default();
        if acc.is_created() {
            e.storage.clear();
        }
        e.balance = acc.info.balance;
        e.nonce = acc.info.nonce;
        if let Some(code) = &acc.info.code {
            e.code = code.original_bytes();
        } else if acc.info.code_hash == KECCAK_EMPTY || acc.info.code_hash == B256::ZERO {
            e.code = Bytes::new();
        }
        for (k, slot) in &acc.storage {
            if slot.present_value.is_zero() {
                e.storage.remove(k);
            } else {
                e.storage.insert(*k, slot.present_value);
            }
        }
        if state_clear && e.is_empty() {
            p.remove(a);
        }
    }
}

pub fn total_balance(p: &Plain) -> num_bigint::BigUint {
    let mut s = num_bigint::BigUint::default();
    for acc in p.values() {
        s += num_bigint::BigUint::from_bytes_be(&acc.balance.to_be_bytes::<32>());
    }
    s
}
pub use crate::lattice::big;

pub const MAINNET_SPECS: [SpecId; 19] = [
    SpecId::FRONTIER,
    SpecId::FRONTIER_THAWING,
    SpecId::HOMESTEAD,
    SpecId::DAO_FORK,
    SpecId::TANGERINE,
    SpecId::SPURIOUS_DRAGON,
    SpecId::BYZANTIUM,
    SpecId::CONSTANTINOPLE,
    SpecId::PETERSBURG,
    SpecId::ISTANBUL,
    SpecId::MUIR_GLACIER,
    SpecId::BERLIN,
    SpecId::LONDON,
    SpecId::ARROW_GLACIER,
    SpecId::GRAY_GLACIER,
    SpecId::MERGE,
    SpecId::SHANGHAI,
    SpecId::CANCUN,
    SpecId::PRAGUE,
];
pub fn all_specs() -> Vec<SpecId> {
    let mut v = MAINNET_SPECS.to_vec();
    v.push(SpecId::OSAKA);
    v.push(SpecId::LATEST);
    #[cfg(feature = "op")]
    v.extend([SpecId::BEDROCK, SpecId::REGOLITH, SpecId::CANYON, SpecId::ECOTONE, SpecId::FJORD, SpecId::GRANITE, SpecId::HOLOCENE, SpecId::ISTHMUS]);
    v
}
pub fn spec_name(s: SpecId) -> String {
    format!("{s:?}")
}
pub fn spec_from_name(n: &str) -> SpecId {
    for s in all_specs() {
        if spec_name(s) == n {
            return s;
        }
    }
    panic!("unknown spec {n}")
}
