//! E3: boundary-value lattices.
use num_bigint::{BigInt, BigUint};
use num_traits::{One, Zero};
use revm::primitives::U256;

pub fn big(u: U256) -> BigUint {
    BigUint::from_bytes_be(&u.to_be_bytes::<32>())
}
pub fn two256() -> BigUint {
    BigUint::one() << 256
}
pub fn from_big(b: &BigUint) -> U256 {
    let m = b % two256();
    let bytes = m.to_bytes_be();
    U256::from_be_slice(&bytes)
}
pub fn signed(u: U256) -> BigInt {
    let b = BigInt::from(big(u));
    if u.bit(255) {
        b - BigInt::from(two256())
    } else {
        b
    }
}
pub fn from_signed(v: &BigInt) -> U256 {
    let m = BigInt::from(two256());
    let mut r = v % &m;
    if r < BigInt::zero() {
        r += &m;
    }
    from_big(&r.to_biguint().unwrap())
}

/// ~200 boundary words: 0,1,2, 2^(8k)-1, 2^(8k), 2^(8k)+1 (k=1..31), around 2^255, top values, and negations.
pub fn words() -> Vec<U256> {
    let mut v = vec![U256::ZERO, U256::from(1), U256::from(2), U256::from(3)];
    for k in 1..32usize {
        let p = U256::from(1) << (8 * k);
        v.push(p - U256::from(1));
        v.push(p);
        v.push(p + U256::from(1));
    }
    let h = U256::from(1) << 255;
    v.push(h - U256::from(1));
    v.push(h);
    v.push(h + U256::from(1));
    v.push(U256::MAX - U256::from(1));
    v.push(U256::MAX);
    v.push(U256::from_be_bytes([0xa5; 32]));
    v.push(U256::from_be_bytes([0x5a; 32]));
    let neg: Vec<U256> = v.iter().map(|x| x.wrapping_neg()).collect();
    v.extend(neg);
    v.sort();
    v.dedup();
    v
}
/// reduced lattice (~40 values) for triples and per-spec sweeps
pub fn words_small() -> Vec<U256> {
    let mut v = vec![U256::ZERO, U256::from(1), U256::from(2), U256::from(3), U256::from(7), U256::from(255), U256::from(256)];
    for k in [8usize, 16, 31] {
        let p = U256::from(1) << (8 * k);
        v.push(p - U256::from(1));
        v.push(p);
        v.push(p + U256::from(1));
    }
    let h = U256::from(1) << 255;
    v.push(h - U256::from(1));
    v.push(h);
    v.push(h + U256::from(1));
    v.push(U256::MAX - U256::from(1));
    v.push(U256::MAX);
    v.push(U256::from_be_bytes([0xa5; 32]));
    let neg: Vec<U256> = v.iter().map(|x| x.wrapping_neg()).collect();
    v.extend(neg);
    v.sort();
    v.dedup();
    v
}
/// u64 boundary lattice
pub fn u64s() -> Vec<u64> {
    let mut v = vec![0u64, 1, 2, 3, 31, 32, 33, 63, 64, 65, 1023, 1024, 1025];
    for k in 1..64u32 {
        let p = 1u64 << k;
        v.push(p - 1);
        v.push(p);
        v.push(p + 1);
    }
    v.push(u64::MAX - 1);
    v.push(u64::MAX);
    v.sort();
    v.dedup();
    v
}
