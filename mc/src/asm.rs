//! Tiny EVM assembler used by the program enumerators.
use revm::primitives::{Address, U256};

#[derive(Clone, Default, Debug)]
pub struct Asm(pub Vec<u8>);

pub mod op {
    pub const STOP: u8 = 0x00;
    pub const ADD: u8 = 0x01;
    pub const MUL: u8 = 0x02;
    pub const SUB: u8 = 0x03;
    pub const ISZERO: u8 = 0x15;
    pub const KECCAK256: u8 = 0x20;
    pub const ADDRESS: u8 = 0x30;
    pub const BALANCE: u8 = 0x31;
    pub const CALLER: u8 = 0x33;
    pub const CALLVALUE: u8 = 0x34;
    pub const CALLDATALOAD: u8 = 0x35;
    pub const CALLDATASIZE: u8 = 0x36;
    pub const CALLDATACOPY: u8 = 0x37;
    pub const CODESIZE: u8 = 0x38;
    pub const CODECOPY: u8 = 0x39;
    pub const EXTCODESIZE: u8 = 0x3b;
    pub const EXTCODECOPY: u8 = 0x3c;
    pub const RETURNDATASIZE: u8 = 0x3d;
    pub const RETURNDATACOPY: u8 = 0x3e;
    pub const EXTCODEHASH: u8 = 0x3f;
    pub const SELFBALANCE: u8 = 0x47;
    pub const POP: u8 = 0x50;
    pub const MLOAD: u8 = 0x51;
    pub const MSTORE: u8 = 0x52;
    pub const MSTORE8: u8 = 0x53;
    pub const SLOAD: u8 = 0x54;
    pub const SSTORE: u8 = 0x55;
    pub const JUMP: u8 = 0x56;
    pub const JUMPI: u8 = 0x57;
    pub const PC: u8 = 0x58;
    pub const MSIZE: u8 = 0x59;
    pub const GAS: u8 = 0x5a;
    pub const JUMPDEST: u8 = 0x5b;
    pub const TLOAD: u8 = 0x5c;
    pub const TSTORE: u8 = 0x5d;
    pub const MCOPY: u8 = 0x5e;
    pub const PUSH0: u8 = 0x5f;
    pub const PUSH1: u8 = 0x60;
    pub const PUSH32: u8 = 0x7f;
    pub const DUP1: u8 = 0x80;
    pub const SWAP1: u8 = 0x90;
    pub const LOG0: u8 = 0xa0;
    pub const CREATE: u8 = 0xf0;
    pub const CALL: u8 = 0xf1;
    pub const CALLCODE: u8 = 0xf2;
    pub const RETURN: u8 = 0xf3;
    pub const DELEGATECALL: u8 = 0xf4;
    pub const CREATE2: u8 = 0xf5;
    pub const STATICCALL: u8 = 0xfa;
    pub const REVERT: u8 = 0xfd;
    pub const INVALID: u8 = 0xfe;
    pub const SELFDESTRUCT: u8 = 0xff;
}

impl Asm {
    pub fn new() -> Self {
        Asm(vec![])
    }
    pub fn op(mut self, o: u8) -> Self {
        self.0.push(o);
        self
    }
    pub fn ops(mut self, o: &[u8]) -> Self {
        self.0.extend_from_slice(o);
        self
    }
    /// minimal-width PUSHn (PUSH1 0x00 for zero so that it works before Shanghai)
    pub fn push(mut self, v: U256) -> Self {
        let b = v.to_be_bytes::<32>();
        let skip = b.iter().take_while(|x| **x == 0).count().min(31);
        let n = 32 - skip;
        self.0.push(0x5f + n as u8);
        self.0.extend_from_slice(&b[skip..]);
        self
    }
    pub fn push_u(self, v: u64) -> Self {
        self.push(U256::from(v))
    }
    pub fn push_addr(mut self, a: Address) -> Self {
        self.0.push(0x73);
        self.0.extend_from_slice(a.as_slice());
        self
    }
    pub fn push_bytes(mut self, b: &[u8]) -> Self {
        assert!(!b.is_empty() && b.len() <= 32);
        self.0.push(0x5f + b.len() as u8);
        self.0.extend_from_slice(b);
        self
    }
    pub fn append(mut self, o: &Asm) -> Self {
        self.0.extend_from_slice(&o.0);
        self
    }
    /// store `code` (<= 32 bytes) at the end of memory word 0 and leave nothing on the stack;
    /// returns (offset, len) of the code in memory
    pub fn mem_code(self, code: &[u8]) -> (Self, u64, u64) {
        if code.is_empty() {
            return (self, 0, 0);
        }
        assert!(code.len() <= 32);
        let a = self.push_bytes(code).push_u(0).op(op::MSTORE);
        (a, 32 - code.len() as u64, code.len() as u64)
    }
    /// CALL-family: pushes all operands; result flag stays on the stack
    pub fn call(self, opc: u8, gas: U256, to: Address, value: Option<U256>, in_off: u64, in_len: u64, out_off: u64, out_len: u64) -> Self {
        let mut a = self.push_u(out_len).push_u(out_off).push_u(in_len).push_u(in_off);
        if let Some(v) = value {
            a = a.push(v);
        }
        a.push_addr(to).push(gas).op(opc)
    }
    pub fn create(self, value: U256, initcode: &[u8]) -> Self {
        let (a, off, len) = self.mem_code(initcode);
        a.push_u(len).push_u(off).push(value).op(op::CREATE)
    }
    pub fn create2(self, value: U256, initcode: &[u8], salt: u64) -> Self {
        let (a, off, len) = self.mem_code(initcode);
        a.push_u(salt).push_u(len).push_u(off).push(value).op(op::CREATE2)
    }
    /// return the word on top of the stack
    pub fn ret_top(self) -> Self {
        self.push_u(0).op(op::MSTORE).push_u(32).push_u(0).op(op::RETURN)
    }
    pub fn sstore(self, k: u64, v: u64) -> Self {
        self.push_u(v).push_u(k).op(op::SSTORE)
    }
    pub fn build(self) -> Vec<u8> {
        self.0
    }
}
