//! R: a deliberately boring reference EVM written from the Yellow Paper and the EIPs.
//!
//! Big-step frames, `BTreeMap` world state, whole-state snapshots for revert (no journal), explicit
//! accessed-address / accessed-slot sets, one gas schedule per fork written as plain `if`s. It shares no
//! code with revm's interpreter, journal, handler or gas module. Trusted and shared: `ruint::U256`
//! arithmetic, keccak256, and the precompile bodies of revm-precompile (checked separately by C03 / C23).
use revm::precompile::{PrecompileSpecId, Precompiles};
use revm::primitives::{keccak256, Address, Bytes, Env, SpecId, B256, KECCAK_EMPTY, U256};
use std::collections::{BTreeMap, BTreeSet};

#[derive(Clone, Debug, Default, PartialEq, Eq)]
pub struct RAcc {
    pub balance: U256,
    pub nonce: u64,
    pub code: Bytes,
    pub storage: BTreeMap<U256, U256>,
}
impl RAcc {
    pub fn is_empty(&self) -> bool {
        self.balance.is_zero() && self.nonce == 0 && self.code.is_empty()
    }
}
pub type RWorld = BTreeMap<Address, RAcc>;

#[derive(Clone, Debug, PartialEq, Eq)]
pub struct RLog {
    pub address: Address,
    pub topics: Vec<B256>,
    pub data: Bytes,
}
#[derive(Clone, Debug)]
pub struct REnv {
    pub number: U256,
    pub timestamp: U256,
    pub coinbase: Address,
    pub difficulty: U256,
    pub prevrandao: B256,
    pub gas_limit: U256,
    pub basefee: U256,
    pub blob_gasprice: U256,
    pub chain_id: u64,
}
#[derive(Clone, Debug)]
pub struct RAuth {
    pub chain_id: U256,
    pub address: Address,
    pub nonce: u64,
    pub authority: Option<Address>,
}
#[derive(Clone, Debug)]
pub struct RTx {
    pub caller: Address,
    pub to: Option<Address>,
    pub value: U256,
    pub data: Bytes,
    pub gas_limit: u64,
    pub gas_price: U256,
    pub priority_fee: Option<U256>,
    pub nonce: Option<u64>,
    pub chain_id: Option<u64>,
    pub access_list: Vec<(Address, Vec<U256>)>,
    pub blob_hashes: Vec<B256>,
    pub max_fee_per_blob_gas: Option<U256>,
    pub auth_list: Option<Vec<RAuth>>,
}
#[derive(Clone, Debug, PartialEq, Eq)]
pub enum RClass {
    Success,
    Revert,
    Halt,
}
#[derive(Clone, Debug)]
pub struct RDone {
    pub class: RClass,
    pub gas_used: u64,
    pub refunded: u64,
    pub output: Bytes,
    pub logs: Vec<RLog>,
    pub created: Option<Address>,
    /// (depth, pc, opcode, gas before) of every executed instruction, when tracing
    pub trace: Vec<(u32, u32, u8, u64)>,
}
#[derive(Clone, Debug)]
pub enum ROutcome {
    Invalid(String),
    Done(RDone),
}

#[derive(Clone, Copy)]
pub struct Fork(pub SpecId);
impl Fork {
    pub fn is(self, s: SpecId) -> bool {
        self.0.is_enabled_in(s)
    }
}

#[derive(Clone)]
struct TxState {
    world: RWorld,
    accessed_addrs: BTreeSet<Address>,
    accessed_slots: BTreeSet<(Address, U256)>,
    transient: BTreeMap<(Address, U256), U256>,
    logs: Vec<RLog>,
    refund: i64,
    selfdestructs: BTreeSet<Address>,
    created: BTreeSet<Address>,
    touched: BTreeSet<Address>,
}
struct Msg {
    caller: Address,
    /// account whose storage / balance the code acts on
    target: Address,
    /// account whose code runs
    code_address: Address,
    value: U256,
    /// whether `value` is moved from caller to target before the code runs
    transfers: bool,
    data: Bytes,
    gas: u64,
    is_static: bool,
    depth: u32,
    /// the code address was reached through an EIP-7702 delegation (a delegation to a precompile
    /// address executes empty code, not the precompile)
    delegated: bool,
}
struct FrameOut {
    ok: bool,
    reverted: bool,
    gas_left: u64,
    output: Bytes,
}
pub struct Machine<'a> {
    f: Fork,
    env: &'a REnv,
    origin: Address,
    gas_price: U256,
    blob_hashes: Vec<B256>,
    /// storage values at the start of the transaction (EIP-2200 "original value")
    original: RWorld,
    st: TxState,
    pub trace_on: bool,
    trace: Vec<(u32, u32, u8, u64)>,
    pub step_limit: u64,
    steps: u64,
    /// code returned by the init code of a creation transaction
    top_deployed: Bytes,
}

const OOG: &str = "out of gas";
type Res<T> = Result<T, &'static str>;

fn words(n: u64) -> u64 {
    n / 32 + (n % 32 != 0) as u64
}
fn mem_cost(w: u64) -> u128 {
    let w = w as u128;
    3 * w + w * w / 512
}
fn is_delegation(code: &[u8]) -> Option<Address> {
    if code.len() == 23 && code[0] == 0xef && code[1] == 0x01 && code[2] == 0x00 {
        Some(Address::from_slice(&code[3..]))
    } else {
        None
    }
}
fn precompile_spec(f: Fork) -> Option<PrecompileSpecId> {
    Some(if f.is(SpecId::PRAGUE) {
        PrecompileSpecId::PRAGUE
    } else if f.is(SpecId::CANCUN) {
        PrecompileSpecId::CANCUN
    } else if f.is(SpecId::BERLIN) {
        PrecompileSpecId::BERLIN
    } else if f.is(SpecId::ISTANBUL) {
        PrecompileSpecId::ISTANBUL
    } else if f.is(SpecId::BYZANTIUM) {
        PrecompileSpecId::BYZANTIUM
    } else {
        PrecompileSpecId::HOMESTEAD
    })
}
pub fn precompile_addresses(f: Fork) -> Vec<Address> {
    let n: u64 = if f.is(SpecId::PRAGUE) {
        0x11
    } else if f.is(SpecId::CANCUN) {
        0x0a
    } else if f.is(SpecId::ISTANBUL) {
        9
    } else if f.is(SpecId::BYZANTIUM) {
        8
    } else {
        4
    };
    (1..=n).map(revm::precompile::u64_to_address).collect()
}
fn create_address(sender: Address, nonce: u64) -> Address {
    sender.create(nonce)
}
fn create2_address(sender: Address, salt: U256, init: &[u8]) -> Address {
    sender.create2(B256::from(salt.to_be_bytes::<32>()), keccak256(init))
}

// ------------------------------------------------------------------------------------------------
// intrinsic gas and validity
pub fn intrinsic_gas(f: Fork, tx: &RTx) -> (u64, u64) {
    let zeros = tx.data.iter().filter(|b| **b == 0).count() as u64;
    let nonzeros = tx.data.len() as u64 - zeros;
    let mut g = 21000 + 4 * zeros + nonzeros * if f.is(SpecId::ISTANBUL) { 16 } else { 68 };
    if tx.to.is_none() {
        if f.is(SpecId::HOMESTEAD) {
            g += 32000;
        }
        if f.is(SpecId::SHANGHAI) {
            g += 2 * words(tx.data.len() as u64);
        }
    }
    if f.is(SpecId::BERLIN) {
        for (_, ks) in &tx.access_list {
            g += 2400 + 1900 * ks.len() as u64;
        }
    }
    if f.is(SpecId::PRAGUE) {
        g += 25000 * tx.auth_list.as_ref().map(|l| l.len() as u64).unwrap_or(0);
    }
    let floor = if f.is(SpecId::PRAGUE) { 21000 + 10 * (zeros + 4 * nonzeros) } else { 0 };
    (g, floor)
}
fn max_blobs(f: Fork) -> usize {
    if f.is(SpecId::PRAGUE) {
        9
    } else {
        6
    }
}
pub fn validate(f: Fork, env: &REnv, tx: &RTx, world: &RWorld) -> Result<(), String> {
    let sender = world.get(&tx.caller).cloned().unwrap_or_default();
    if let Some(c) = tx.chain_id {
        if c != env.chain_id {
            return Err("chain id".into());
        }
    }
    if U256::from(tx.gas_limit) > env.gas_limit {
        return Err("gas limit above block gas limit".into());
    }
    let (intrinsic, floor) = intrinsic_gas(f, tx);
    if tx.gas_limit < intrinsic || tx.gas_limit < floor {
        return Err("intrinsic gas".into());
    }
    if f.is(SpecId::LONDON) {
        if tx.gas_price < env.basefee {
            return Err("max fee below base fee".into());
        }
        if let Some(p) = tx.priority_fee {
            if p > tx.gas_price {
                return Err("priority fee above max fee".into());
            }
        }
    } else if tx.priority_fee.is_some() {
        return Err("type-2 transaction before London".into());
    }
    if !f.is(SpecId::BERLIN) && !tx.access_list.is_empty() {
        return Err("access list before Berlin".into());
    }
    let blobby = tx.max_fee_per_blob_gas.is_some() || !tx.blob_hashes.is_empty();
    if !f.is(SpecId::CANCUN) {
        if blobby {
            return Err("blob transaction before Cancun".into());
        }
    } else if let Some(mf) = tx.max_fee_per_blob_gas {
        if tx.blob_hashes.is_empty() || tx.to.is_none() || tx.blob_hashes.iter().any(|h| h.0[0] != 1) || tx.blob_hashes.len() > max_blobs(f) || mf < env.blob_gasprice {
            return Err("blob rules".into());
        }
    } else if !tx.blob_hashes.is_empty() {
        return Err("blob hashes without max fee".into());
    }
    if let Some(l) = &tx.auth_list {
        if !f.is(SpecId::PRAGUE) || l.is_empty() || tx.to.is_none() || blobby {
            return Err("authorization list rules".into());
        }
    }
    if f.is(SpecId::SHANGHAI) && tx.to.is_none() && tx.data.len() > 49152 {
        return Err("init code size".into());
    }
    if !sender.code.is_empty() && !(f.is(SpecId::PRAGUE) && is_delegation(&sender.code).is_some()) {
        return Err("sender has code".into());
    }
    if let Some(n) = tx.nonce {
        if n != sender.nonce {
            return Err("nonce".into());
        }
    }
    if sender.nonce == u64::MAX {
        return Err("nonce overflow".into());
    }
    let mut cost = U256::from(tx.gas_limit).checked_mul(tx.gas_price).and_then(|c| c.checked_add(tx.value)).ok_or("cost overflow")?;
    if f.is(SpecId::CANCUN) {
        if let Some(mf) = tx.max_fee_per_blob_gas {
            cost = cost.checked_add(mf * U256::from(131072u64 * tx.blob_hashes.len() as u64)).ok_or("cost overflow")?;
        }
    }
    if cost > sender.balance {
        return Err("insufficient balance".into());
    }
    Ok(())
}

// ------------------------------------------------------------------------------------------------
pub fn transact(spec: SpecId, env: &REnv, tx: &RTx, world: &mut RWorld, trace: bool) -> ROutcome {
    let f = Fork(spec);
    if let Err(e) = validate(f, env, tx, world) {
        return ROutcome::Invalid(e);
    }
    let eff_price = match tx.priority_fee {
        Some(p) if f.is(SpecId::LONDON) => tx.gas_price.min(env.basefee + p),
        _ => tx.gas_price,
    };
    let blob_fee = if f.is(SpecId::CANCUN) { env.blob_gasprice * U256::from(131072u64 * tx.blob_hashes.len() as u64) } else { U256::ZERO };
    let (intrinsic, floor) = intrinsic_gas(f, tx);
    let mut m = Machine {
        f,
        env,
        origin: tx.caller,
        gas_price: eff_price,
        blob_hashes: tx.blob_hashes.clone(),
        original: RWorld::new(),
        st: TxState { world: world.clone(), accessed_addrs: BTreeSet::new(), accessed_slots: BTreeSet::new(), transient: BTreeMap::new(), logs: vec![], refund: 0, selfdestructs: BTreeSet::new(), created: BTreeSet::new(), touched: BTreeSet::new() },
        trace_on: trace,
        trace: vec![],
        step_limit: 50_000_000,
        steps: 0,
        top_deployed: Bytes::new(),
    };
    // up-front payment and nonce
    {
        let s = m.st.world.entry(tx.caller).or_default();
        s.balance -= U256::from(tx.gas_limit) * eff_price + blob_fee;
        m.st.touched.insert(tx.caller);
    }
    let sender_nonce = m.st.world[&tx.caller].nonce;
    m.st.world.get_mut(&tx.caller).unwrap().nonce = sender_nonce + 1;
    // accessed sets (EIP-2929 / 2930 / 3651)
    if f.is(SpecId::BERLIN) {
        m.st.accessed_addrs.insert(tx.caller);
        for p in precompile_addresses(f) {
            m.st.accessed_addrs.insert(p);
        }
        for (a, ks) in &tx.access_list {
            m.st.accessed_addrs.insert(*a);
            for k in ks {
                m.st.accessed_slots.insert((*a, *k));
            }
        }
        if f.is(SpecId::SHANGHAI) {
            m.st.accessed_addrs.insert(env.coinbase);
        }
    }
    // EIP-7702 authorizations
    if f.is(SpecId::PRAGUE) {
        for a in tx.auth_list.iter().flatten() {
            if !(a.chain_id.is_zero() || a.chain_id == U256::from(env.chain_id)) || a.nonce == u64::MAX {
                continue;
            }
            let Some(auth) = a.authority else { continue };
            m.st.accessed_addrs.insert(auth);
            let acc = m.st.world.get(&auth).cloned();
            let code_ok = acc.as_ref().map(|x| x.code.is_empty() || is_delegation(&x.code).is_some()).unwrap_or(true);
            if !code_ok || acc.as_ref().map(|x| x.nonce).unwrap_or(0) != a.nonce {
                continue;
            }
            if acc.as_ref().map(|x| !x.is_empty()).unwrap_or(false) {
                m.st.refund += 12500;
            }
            let e = m.st.world.entry(auth).or_default();
            if a.address == Address::ZERO {
                e.code = Bytes::new();
            } else {
                let mut d = vec![0xef, 0x01, 0x00];
                d.extend_from_slice(a.address.as_slice());
                e.code = d.into();
            }
            e.nonce += 1;
            m.st.touched.insert(auth);
        }
    }
    m.original = m.st.world.clone();
    let gas = tx.gas_limit - intrinsic;
    let mut created = None;
    let out = match tx.to {
        Some(to) => {
            if f.is(SpecId::BERLIN) {
                m.st.accessed_addrs.insert(to);
            }
            // a delegated destination runs the delegate's code (and makes it warm)
            let mut code_address = to;
            let mut delegated = false;
            if f.is(SpecId::PRAGUE) {
                if let Some(d) = m.st.world.get(&to).and_then(|a| is_delegation(&a.code)) {
                    m.st.accessed_addrs.insert(d);
                    code_address = d;
                    delegated = true;
                }
            }
            m.call(Msg { caller: tx.caller, target: to, code_address, value: tx.value, transfers: true, data: tx.data.clone(), gas, is_static: false, depth: 0, delegated })
        }
        None => {
            let addr = create_address(tx.caller, sender_nonce);
            created = Some(addr);
            m.create(tx.caller, addr, tx.value, tx.data.clone(), gas, 0)
        }
    };
    let class = if out.ok {
        RClass::Success
    } else if out.reverted {
        RClass::Revert
    } else {
        RClass::Halt
    };
    // refunds
    let mut gas_used = tx.gas_limit - out.gas_left;
    let counter = if out.ok { m.st.refund.max(0) as u64 } else { m.auth_refund_only(tx) };
    let cap = gas_used / if f.is(SpecId::LONDON) { 5 } else { 2 };
    let mut refunded = counter.min(cap);
    gas_used -= refunded;
    if gas_used < floor {
        gas_used = floor;
        refunded = 0;
    }
    // reimbursement and reward
    m.st.world.entry(tx.caller).or_default().balance += U256::from(tx.gas_limit - gas_used) * eff_price;
    let tip = if f.is(SpecId::LONDON) { eff_price - env.basefee } else { eff_price };
    m.st.world.entry(env.coinbase).or_default().balance += U256::from(gas_used) * tip;
    m.st.touched.insert(env.coinbase);
    // end of transaction: destroyed accounts, then empty touched accounts (EIP-161)
    for a in m.st.selfdestructs.clone() {
        m.st.world.remove(&a);
    }
    if f.is(SpecId::SPURIOUS_DRAGON) {
        for a in m.st.touched.clone() {
            if m.st.world.get(&a).map(|x| x.is_empty()).unwrap_or(false) {
                m.st.world.remove(&a);
            }
        }
    }
    *world = m.st.world.clone();
    ROutcome::Done(RDone {
        class: class.clone(),
        gas_used,
        refunded,
        output: if class == RClass::Halt {
            Bytes::new()
        } else if tx.to.is_none() && class == RClass::Success {
            m.top_deployed.clone()
        } else {
            out.output
        },
        logs: if class == RClass::Success { m.st.logs.clone() } else { vec![] },
        created: if class == RClass::Success { created } else { None },
        trace: std::mem::take(&mut m.trace),
    })
}

impl Machine<'_> {
    /// when execution fails the execution refund counter is discarded but the EIP-7702 refund, which
    /// belongs to the transaction, stays
    fn auth_refund_only(&self, tx: &RTx) -> u64 {
        let _ = tx;
        // the counter was restored to its value before the top-level message by the failing frame
        self.st.refund.max(0) as u64
    }
    fn exists(&self, a: Address) -> bool {
        self.st.world.contains_key(&a)
    }
    fn is_dead(&self, a: Address) -> bool {
        self.st.world.get(&a).map(|x| x.is_empty()).unwrap_or(true)
    }
    fn balance(&self, a: Address) -> U256 {
        self.st.world.get(&a).map(|x| x.balance).unwrap_or_default()
    }
    fn code(&self, a: Address) -> Bytes {
        self.st.world.get(&a).map(|x| x.code.clone()).unwrap_or_default()
    }
    fn sload(&self, a: Address, k: U256) -> U256 {
        self.st.world.get(&a).and_then(|x| x.storage.get(&k).copied()).unwrap_or_default()
    }
    fn original_value(&self, a: Address, k: U256) -> U256 {
        // an account created in this transaction starts with empty storage
        if self.st.created.contains(&a) {
            return U256::ZERO;
        }
        self.original.get(&a).and_then(|x| x.storage.get(&k).copied()).unwrap_or_default()
    }
    fn touch(&mut self, a: Address) {
        self.st.touched.insert(a);
        if !self.f.is(SpecId::SPURIOUS_DRAGON) {
            // before EIP-161 a touched account exists
            self.st.world.entry(a).or_default();
        }
    }
    fn transfer(&mut self, from: Address, to: Address, v: U256) {
        if !v.is_zero() {
            self.st.world.entry(from).or_default().balance -= v;
            self.st.world.entry(to).or_default().balance += v;
        } else if self.f.is(SpecId::SPURIOUS_DRAGON) {
            // nothing to write; the touch below is all that happens
        }
        self.touch(from);
        self.touch(to);
    }
    /// address access cost component (EIP-2929): returns (warm?) and marks warm
    fn access_addr(&mut self, a: Address) -> bool {
        !self.st.accessed_addrs.insert(a)
    }
    fn access_slot(&mut self, a: Address, k: U256) -> bool {
        !self.st.accessed_slots.insert((a, k))
    }

    fn call(&mut self, msg: Msg) -> FrameOut {
        let snapshot = self.st.clone();
        if msg.transfers {
            if self.balance(msg.caller) < msg.value {
                // (checked by the caller for nested calls; a transaction is validated beforehand)
                return FrameOut { ok: false, reverted: true, gas_left: msg.gas, output: Bytes::new() };
            }
            self.transfer(msg.caller, msg.target, msg.value);
        }
        // precompile?
        if let Some(ps) = precompile_spec(self.f) {
            let pcs = Precompiles::new(ps);
            if !msg.delegated && precompile_addresses(self.f).contains(&msg.code_address) {
                if let Some(p) = pcs.get(&msg.code_address) {
                    let env = Env::default();
                    return match p.call_ref(&msg.data, msg.gas, &env) {
                        Ok(o) if o.gas_used <= msg.gas => FrameOut { ok: true, reverted: false, gas_left: msg.gas - o.gas_used, output: o.bytes },
                        _ => {
                            let keep_touch = msg.code_address == revm::precompile::u64_to_address(3) && self.f.is(SpecId::SPURIOUS_DRAGON);
                            self.st = snapshot;
                            if keep_touch {
                                // the RIPEMD-160 precompile stays touched when the call runs out of gas (mainnet block 2675119)
                                self.st.touched.insert(msg.code_address);
                            }
                            FrameOut { ok: false, reverted: false, gas_left: 0, output: Bytes::new() }
                        }
                    };
                }
            }
        }
        let code = if msg.delegated && precompile_addresses(self.f).contains(&msg.code_address) { Bytes::new() } else { self.code(msg.code_address) };
        if code.is_empty() {
            return FrameOut { ok: true, reverted: false, gas_left: msg.gas, output: Bytes::new() };
        }
        let r = self.run(&msg, &code);
        match r {
            Ok((gas_left, output, reverted)) => {
                if reverted {
                    self.st = snapshot;
                }
                FrameOut { ok: !reverted, reverted, gas_left, output }
            }
            Err(_) => {
                self.st = snapshot;
                FrameOut { ok: false, reverted: false, gas_left: 0, output: Bytes::new() }
            }
        }
    }

    /// contract creation at `addr` (the creator's nonce has already been bumped)
    fn create(&mut self, creator: Address, addr: Address, value: U256, init: Bytes, gas: u64, depth: u32) -> FrameOut {
        if self.f.is(SpecId::BERLIN) {
            self.st.accessed_addrs.insert(addr);
        }
        // collision: nonce, code or (EIP-7610) storage at the target
        if let Some(t) = self.st.world.get(&addr) {
            if t.nonce != 0 || !t.code.is_empty() || t.storage.values().any(|v| !v.is_zero()) {
                return FrameOut { ok: false, reverted: false, gas_left: 0, output: Bytes::new() };
            }
        }
        let snapshot = self.st.clone();
        {
            let e = self.st.world.entry(addr).or_default();
            e.storage.clear();
            if self.f.is(SpecId::SPURIOUS_DRAGON) {
                e.nonce = 1;
            }
        }
        self.st.created.insert(addr);
        self.transfer(creator, addr, value);
        let msg = Msg { caller: creator, target: addr, code_address: addr, value, transfers: false, data: Bytes::new(), gas, is_static: false, depth, delegated: false };
        let r = if init.is_empty() { Ok((gas, Bytes::new(), false)) } else { self.run(&msg, &init) };
        match r {
            Ok((gas_left, output, true)) => {
                self.st = snapshot;
                FrameOut { ok: false, reverted: true, gas_left, output }
            }
            Ok((mut gas_left, output, false)) => {
                let too_big = self.f.is(SpecId::SPURIOUS_DRAGON) && output.len() > 24576;
                let starts_ef = self.f.is(SpecId::LONDON) && output.first() == Some(&0xef);
                let deposit = 200 * output.len() as u64;
                if too_big || starts_ef {
                    self.st = snapshot;
                    return FrameOut { ok: false, reverted: false, gas_left: 0, output: Bytes::new() };
                }
                if gas_left < deposit {
                    if self.f.is(SpecId::HOMESTEAD) {
                        self.st = snapshot;
                        return FrameOut { ok: false, reverted: false, gas_left: 0, output: Bytes::new() };
                    }
                    // Frontier: the contract is created without code and keeps the gas
                    return FrameOut { ok: true, reverted: false, gas_left, output: Bytes::new() };
                }
                gas_left -= deposit;
                if depth == 0 {
                    self.top_deployed = output.clone();
                }
                self.st.world.entry(addr).or_default().code = output;
                FrameOut { ok: true, reverted: false, gas_left, output: Bytes::new() }
            }
            Err(_) => {
                self.st = snapshot;
                FrameOut { ok: false, reverted: false, gas_left: 0, output: Bytes::new() }
            }
        }
    }

    /// Interpret `code`; Ok((gas_left, output, reverted)) or Err(exceptional halt)
    fn run(&mut self, msg: &Msg, code: &[u8]) -> Res<(u64, Bytes, bool)> {
        let f = self.f;
        let mut gas = msg.gas;
        let mut pc: usize = 0;
        let mut stack: Vec<U256> = Vec::with_capacity(64);
        let mut mem: Vec<u8> = Vec::new();
        let mut ret: Bytes = Bytes::new();
        // valid jump destinations
        let mut jd = vec![false; code.len()];
        {
            let mut i = 0;
            while i < code.len() {
                let o = code[i];
                if o == 0x5b {
                    jd[i] = true;
                }
                i += if (0x60..=0x7f).contains(&o) { (o - 0x5f) as usize + 1 } else { 1 };
            }
        }
        macro_rules! charge {
            ($g:expr) => {{
                let c: u128 = ($g) as u128;
                if (gas as u128) < c {
                    return Err(OOG);
                }
                gas -= c as u64;
            }};
        }
        macro_rules! pop {
            () => {
                stack.pop().ok_or("stack underflow")?
            };
        }
        macro_rules! push {
            ($v:expr) => {{
                if stack.len() >= 1024 {
                    return Err("stack overflow");
                }
                stack.push($v);
            }};
        }
        // memory expansion for [off, off+len): charges and grows
        macro_rules! mem_expand {
            ($off:expr, $len:expr) => {{
                let (off, len): (U256, U256) = ($off, $len);
                if !len.is_zero() {
                    let end = off.checked_add(len).ok_or(OOG)?;
                    if end > U256::from(u32::MAX) {
                        return Err(OOG);
                    }
                    let end = end.to::<u64>();
                    let new_w = words(end);
                    let old_w = (mem.len() / 32) as u64;
                    if new_w > old_w {
                        charge!(mem_cost(new_w) - mem_cost(old_w));
                        mem.resize((new_w * 32) as usize, 0);
                    }
                }
            }};
        }
        fn usz(v: U256) -> usize {
            v.saturating_to::<usize>()
        }
        fn copy_padded(dst: &mut [u8], src: &[u8], src_off: U256) {
            for (i, d) in dst.iter_mut().enumerate() {
                let p = src_off.checked_add(U256::from(i));
                *d = match p {
                    Some(p) if p < U256::from(src.len()) => src[usz(p)],
                    _ => 0,
                };
            }
        }
        fn addr_of(w: U256) -> Address {
            Address::from_slice(&w.to_be_bytes::<32>()[12..])
        }
        fn word_of(a: Address) -> U256 {
            U256::from_be_slice(a.as_slice())
        }
        fn neg(x: U256) -> U256 {
            (!x).wrapping_add(U256::from(1))
        }
        fn is_neg(x: U256) -> bool {
            x.bit(255)
        }
        loop {
            self.steps += 1;
            if self.steps > self.step_limit {
                return Err("step limit");
            }
            let opc = if pc < code.len() { code[pc] } else { 0x00 };
            if self.trace_on && self.trace.len() < 100_000 {
                self.trace.push((msg.depth, pc as u32, opc, gas));
            }
            pc += 1;
            match opc {
                0x00 => return Ok((gas, Bytes::new(), false)),
                0x01..=0x0b | 0x10..=0x1d => {
                    // arithmetic, comparison, bitwise
                    let undefined = match opc {
                        0x1b..=0x1d => !f.is(SpecId::CONSTANTINOPLE),
                        0x0c..=0x0f | 0x1e | 0x1f => true,
                        _ => false,
                    };
                    if undefined {
                        return Err("undefined");
                    }
                    let base: u64 = match opc {
                        0x01 | 0x03 | 0x10..=0x1d => 3,
                        0x02 | 0x04..=0x07 | 0x0b => 5,
                        0x08 | 0x09 => 8,
                        0x0a => 10,
                        _ => 3,
                    };
                    charge!(base);
                    let a = pop!();
                    let r = match opc {
                        0x15 => U256::from(a.is_zero() as u8),
                        0x19 => !a,
                        _ => {
                            let b = pop!();
                            match opc {
                                0x01 => a.wrapping_add(b),
                                0x02 => a.wrapping_mul(b),
                                0x03 => a.wrapping_sub(b),
                                0x04 => {
                                    if b.is_zero() {
                                        U256::ZERO
                                    } else {
                                        a / b
                                    }
                                }
                                0x05 => {
                                    if b.is_zero() {
                                        U256::ZERO
                                    } else {
                                        let (na, nb) = (is_neg(a), is_neg(b));
                                        let q = (if na { neg(a) } else { a }) / (if nb { neg(b) } else { b });
                                        if na != nb {
                                            neg(q)
                                        } else {
                                            q
                                        }
                                    }
                                }
                                0x06 => {
                                    if b.is_zero() {
                                        U256::ZERO
                                    } else {
                                        a % b
                                    }
                                }
                                0x07 => {
                                    if b.is_zero() {
                                        U256::ZERO
                                    } else {
                                        let na = is_neg(a);
                                        let r = (if na { neg(a) } else { a }) % (if is_neg(b) { neg(b) } else { b });
                                        if na {
                                            neg(r)
                                        } else {
                                            r
                                        }
                                    }
                                }
                                0x08 | 0x09 => {
                                    let n = pop!();
                                    if n.is_zero() {
                                        U256::ZERO
                                    } else if opc == 0x08 {
                                        a.add_mod(b, n)
                                    } else {
                                        a.mul_mod(b, n)
                                    }
                                }
                                0x0a => {
                                    let bytes = (b.bit_len() as u64 + 7) / 8;
                                    charge!(bytes * if f.is(SpecId::SPURIOUS_DRAGON) { 50 } else { 10 });
                                    a.pow(b)
                                }
                                0x0b => {
                                    // SIGNEXTEND(a = byte index, b = value)
                                    if a < U256::from(31) {
                                        let bit = 8 * a.to::<usize>() + 7;
                                        let mask = (U256::from(1) << bit) - U256::from(1);
                                        if b.bit(bit) {
                                            b | !mask
                                        } else {
                                            b & mask
                                        }
                                    } else {
                                        b
                                    }
                                }
                                0x10 => U256::from((a < b) as u8),
                                0x11 => U256::from((a > b) as u8),
                                0x12 | 0x13 => {
                                    let (na, nb) = (is_neg(a), is_neg(b));
                                    let lt = if na != nb { na } else { a < b };
                                    let gt = if na != nb { nb } else { a > b };
                                    U256::from((if opc == 0x12 { lt } else { gt }) as u8)
                                }
                                0x14 => U256::from((a == b) as u8),
                                0x16 => a & b,
                                0x17 => a | b,
                                0x18 => a ^ b,
                                0x1a => {
                                    // BYTE(a = index, b = value)
                                    if a < U256::from(32) {
                                        U256::from(b.to_be_bytes::<32>()[a.to::<usize>()])
                                    } else {
                                        U256::ZERO
                                    }
                                }
                                0x1b => {
                                    if a >= U256::from(256) {
                                        U256::ZERO
                                    } else {
                                        b << a.to::<usize>()
                                    }
                                }
                                0x1c => {
                                    if a >= U256::from(256) {
                                        U256::ZERO
                                    } else {
                                        b >> a.to::<usize>()
                                    }
                                }
                                0x1d => {
                                    let n = is_neg(b);
                                    if a >= U256::from(256) {
                                        if n {
                                            U256::MAX
                                        } else {
                                            U256::ZERO
                                        }
                                    } else {
                                        let s = a.to::<usize>();
                                        let r = b >> s;
                                        if n && s > 0 {
                                            r | (U256::MAX << (256 - s))
                                        } else {
                                            r
                                        }
                                    }
                                }
                                _ => return Err("undefined"),
                            }
                        }
                    };
                    push!(r);
                }
                0x20 => {
                    let (off, len) = (pop!(), pop!());
                    charge!(30u128 + 6 * words(len.saturating_to::<u64>()) as u128);
                    if len > U256::from(u32::MAX) {
                        return Err(OOG);
                    }
                    mem_expand!(off, len);
                    let h = if len.is_zero() { KECCAK_EMPTY } else { keccak256(&mem[usz(off)..usz(off) + usz(len)]) };
                    push!(U256::from_be_bytes(h.0));
                }
                0x30 => {
                    charge!(2);
                    push!(word_of(msg.target));
                }
                0x31 | 0x3b | 0x3f => {
                    if opc == 0x3f && !f.is(SpecId::CONSTANTINOPLE) {
                        return Err("undefined");
                    }
                    let a = addr_of(pop!());
                    if f.is(SpecId::BERLIN) {
                        charge!(if self.access_addr(a) { 100 } else { 2600 });
                    } else {
                        charge!(match opc {
                            0x31 => {
                                if f.is(SpecId::ISTANBUL) {
                                    700
                                } else if f.is(SpecId::TANGERINE) {
                                    400
                                } else {
                                    20
                                }
                            }
                            0x3b => {
                                if f.is(SpecId::TANGERINE) {
                                    700
                                } else {
                                    20
                                }
                            }
                            _ => {
                                if f.is(SpecId::ISTANBUL) {
                                    700
                                } else {
                                    400
                                }
                            }
                        });
                    }
                    let v = match opc {
                        0x31 => self.balance(a),
                        0x3b => U256::from(self.code(a).len()),
                        _ => {
                            if self.is_dead(a) {
                                U256::ZERO
                            } else {
                                let c = self.code(a);
                                U256::from_be_bytes(if c.is_empty() { KECCAK_EMPTY.0 } else { keccak256(&c).0 })
                            }
                        }
                    };
                    push!(v);
                }
                0x32 => {
                    charge!(2);
                    push!(word_of(self.origin));
                }
                0x33 => {
                    charge!(2);
                    push!(word_of(msg.caller));
                }
                0x34 => {
                    charge!(2);
                    push!(msg.value);
                }
                0x35 => {
                    charge!(3);
                    let off = pop!();
                    let mut w = [0u8; 32];
                    copy_padded(&mut w, &msg.data, off);
                    push!(U256::from_be_bytes(w));
                }
                0x36 => {
                    charge!(2);
                    push!(U256::from(msg.data.len()));
                }
                0x38 => {
                    charge!(2);
                    push!(U256::from(code.len()));
                }
                0x37 | 0x39 | 0x3e => {
                    // CALLDATACOPY, CODECOPY, RETURNDATACOPY
                    if opc == 0x3e && !f.is(SpecId::BYZANTIUM) {
                        return Err("undefined");
                    }
                    let (d, s, l) = (pop!(), pop!(), pop!());
                    charge!(3u128 + 3 * words(l.saturating_to::<u64>()) as u128);
                    if opc == 0x3e {
                        let end = s.checked_add(l).ok_or("returndata out of bounds")?;
                        if end > U256::from(ret.len()) {
                            return Err("returndata out of bounds");
                        }
                    }
                    mem_expand!(d, l);
                    if !l.is_zero() {
                        let src: &[u8] = match opc {
                            0x37 => &msg.data,
                            0x39 => code,
                            _ => &ret,
                        };
                        let (d, l) = (usz(d), usz(l));
                        let src = src.to_vec();
                        copy_padded(&mut mem[d..d + l], &src, s);
                    }
                }
                0x3a => {
                    charge!(2);
                    push!(self.gas_price);
                }
                0x3c => {
                    let a = addr_of(pop!());
                    let (d, s, l) = (pop!(), pop!(), pop!());
                    let base: u128 = if f.is(SpecId::BERLIN) {
                        if self.access_addr(a) {
                            100
                        } else {
                            2600
                        }
                    } else if f.is(SpecId::TANGERINE) {
                        700
                    } else {
                        20
                    };
                    charge!(base + 3 * words(l.saturating_to::<u64>()) as u128);
                    mem_expand!(d, l);
                    if !l.is_zero() {
                        let c = self.code(a);
                        let (d, l) = (usz(d), usz(l));
                        copy_padded(&mut mem[d..d + l], &c, s);
                    }
                }
                0x3d => {
                    if !f.is(SpecId::BYZANTIUM) {
                        return Err("undefined");
                    }
                    charge!(2);
                    push!(U256::from(ret.len()));
                }
                0x40 => {
                    charge!(20);
                    let n = pop!();
                    // the harness environment serves keccak(number) for the last 256 blocks
                    let cur = self.env.number;
                    let v = if n < cur && cur - n <= U256::from(256) { U256::from_be_bytes(keccak256(n.to_string().as_bytes()).0) } else { U256::ZERO };
                    push!(v);
                }
                0x41 => {
                    charge!(2);
                    push!(word_of(self.env.coinbase));
                }
                0x42 => {
                    charge!(2);
                    push!(self.env.timestamp);
                }
                0x43 => {
                    charge!(2);
                    push!(self.env.number);
                }
                0x44 => {
                    charge!(2);
                    push!(if f.is(SpecId::MERGE) { U256::from_be_bytes(self.env.prevrandao.0) } else { self.env.difficulty });
                }
                0x45 => {
                    charge!(2);
                    push!(self.env.gas_limit);
                }
                0x46 => {
                    if !f.is(SpecId::ISTANBUL) {
                        return Err("undefined");
                    }
                    charge!(2);
                    push!(U256::from(self.env.chain_id));
                }
                0x47 => {
                    if !f.is(SpecId::ISTANBUL) {
                        return Err("undefined");
                    }
                    charge!(5);
                    push!(self.balance(msg.target));
                }
                0x48 => {
                    if !f.is(SpecId::LONDON) {
                        return Err("undefined");
                    }
                    charge!(2);
                    push!(self.env.basefee);
                }
                0x49 => {
                    if !f.is(SpecId::CANCUN) {
                        return Err("undefined");
                    }
                    charge!(3);
                    let i = pop!();
                    let v = if i < U256::from(self.blob_hashes.len()) { U256::from_be_bytes(self.blob_hashes[usz(i)].0) } else { U256::ZERO };
                    push!(v);
                }
                0x4a => {
                    if !f.is(SpecId::CANCUN) {
                        return Err("undefined");
                    }
                    charge!(2);
                    push!(self.env.blob_gasprice);
                }
                0x50 => {
                    charge!(2);
                    pop!();
                }
                0x51 => {
                    charge!(3);
                    let off = pop!();
                    mem_expand!(off, U256::from(32));
                    push!(U256::from_be_slice(&mem[usz(off)..usz(off) + 32]));
                }
                0x52 => {
                    charge!(3);
                    let (off, v) = (pop!(), pop!());
                    mem_expand!(off, U256::from(32));
                    mem[usz(off)..usz(off) + 32].copy_from_slice(&v.to_be_bytes::<32>());
                }
                0x53 => {
                    charge!(3);
                    let (off, v) = (pop!(), pop!());
                    mem_expand!(off, U256::from(1));
                    mem[usz(off)] = v.to_be_bytes::<32>()[31];
                }
                0x54 => {
                    let k = pop!();
                    if f.is(SpecId::BERLIN) {
                        charge!(if self.access_slot(msg.target, k) { 100 } else { 2100 });
                    } else {
                        charge!(if f.is(SpecId::ISTANBUL) {
                            800
                        } else if f.is(SpecId::TANGERINE) {
                            200
                        } else {
                            50
                        });
                    }
                    push!(self.sload(msg.target, k));
                }
                0x55 => {
                    if msg.is_static {
                        return Err("static");
                    }
                    let (k, new) = (pop!(), pop!());
                    let cur = self.sload(msg.target, k);
                    if f.is(SpecId::ISTANBUL) {
                        if gas <= 2300 {
                            return Err(OOG);
                        }
                        let orig = self.original_value(msg.target, k);
                        let cold = f.is(SpecId::BERLIN) && !self.access_slot(msg.target, k);
                        let sload_gas: i64 = if f.is(SpecId::BERLIN) { 100 } else { 800 };
                        let reset: i64 = if f.is(SpecId::BERLIN) { 2900 } else { 5000 };
                        let clears: i64 = if f.is(SpecId::LONDON) { 4800 } else { 15000 };
                        let mut cost = if new == cur {
                            sload_gas
                        } else if orig == cur {
                            if orig.is_zero() {
                                20000
                            } else {
                                reset
                            }
                        } else {
                            sload_gas
                        };
                        if cold {
                            cost += 2100;
                        }
                        charge!(cost as u128);
                        if new != cur {
                            if orig == cur {
                                if !orig.is_zero() && new.is_zero() {
                                    self.st.refund += clears;
                                }
                            } else {
                                if !orig.is_zero() {
                                    if cur.is_zero() {
                                        self.st.refund -= clears;
                                    } else if new.is_zero() {
                                        self.st.refund += clears;
                                    }
                                }
                                if new == orig {
                                    if orig.is_zero() {
                                        self.st.refund += 20000 - sload_gas;
                                    } else {
                                        self.st.refund += reset - sload_gas;
                                    }
                                }
                            }
                        }
                    } else {
                        charge!(if cur.is_zero() && !new.is_zero() { 20000 } else { 5000 });
                        if !cur.is_zero() && new.is_zero() {
                            self.st.refund += 15000;
                        }
                    }
                    let e = self.st.world.entry(msg.target).or_default();
                    if new.is_zero() {
                        e.storage.remove(&k);
                    } else {
                        e.storage.insert(k, new);
                    }
                }
                0x56 | 0x57 => {
                    charge!(if opc == 0x56 { 8 } else { 10 });
                    let dest = pop!();
                    let taken = if opc == 0x57 { !pop!().is_zero() } else { true };
                    if taken {
                        if dest >= U256::from(code.len()) || !jd[usz(dest)] {
                            return Err("bad jump");
                        }
                        pc = usz(dest);
                    }
                }
                0x58 => {
                    charge!(2);
                    push!(U256::from(pc - 1));
                }
                0x59 => {
                    charge!(2);
                    push!(U256::from(mem.len()));
                }
                0x5a => {
                    charge!(2);
                    push!(U256::from(gas));
                }
                0x5b => charge!(1),
                0x5c | 0x5d => {
                    if !f.is(SpecId::CANCUN) {
                        return Err("undefined");
                    }
                    charge!(100);
                    let k = pop!();
                    if opc == 0x5c {
                        push!(self.st.transient.get(&(msg.target, k)).copied().unwrap_or_default());
                    } else {
                        if msg.is_static {
                            return Err("static");
                        }
                        let v = pop!();
                        self.st.transient.insert((msg.target, k), v);
                    }
                }
                0x5e => {
                    if !f.is(SpecId::CANCUN) {
                        return Err("undefined");
                    }
                    let (d, s, l) = (pop!(), pop!(), pop!());
                    charge!(3u128 + 3 * words(l.saturating_to::<u64>()) as u128);
                    mem_expand!(d.max(s), l);
                    if !l.is_zero() {
                        let (d, s, l) = (usz(d), usz(s), usz(l));
                        mem.copy_within(s..s + l, d);
                    }
                }
                0x5f => {
                    if !f.is(SpecId::SHANGHAI) {
                        return Err("undefined");
                    }
                    charge!(2);
                    push!(U256::ZERO);
                }
                0x60..=0x7f => {
                    charge!(3);
                    let n = (opc - 0x5f) as usize;
                    let mut w = [0u8; 32];
                    for i in 0..n {
                        w[32 - n + i] = if pc + i < code.len() { code[pc + i] } else { 0 };
                    }
                    pc += n;
                    push!(U256::from_be_bytes(w));
                }
                0x80..=0x8f => {
                    charge!(3);
                    let n = (opc - 0x7f) as usize;
                    if stack.len() < n {
                        return Err("stack underflow");
                    }
                    let v = stack[stack.len() - n];
                    push!(v);
                }
                0x90..=0x9f => {
                    charge!(3);
                    let n = (opc - 0x8f) as usize;
                    if stack.len() < n + 1 {
                        return Err("stack underflow");
                    }
                    let l = stack.len();
                    stack.swap(l - 1, l - 1 - n);
                }
                0xa0..=0xa4 => {
                    if msg.is_static {
                        return Err("static");
                    }
                    let n = (opc - 0xa0) as usize;
                    let (off, len) = (pop!(), pop!());
                    let mut topics = vec![];
                    for _ in 0..n {
                        topics.push(B256::from(pop!().to_be_bytes::<32>()));
                    }
                    charge!(375u128 + 375 * n as u128 + 8 * len.saturating_to::<u64>() as u128);
                    mem_expand!(off, len);
                    let data = if len.is_zero() { Bytes::new() } else { Bytes::copy_from_slice(&mem[usz(off)..usz(off) + usz(len)]) };
                    self.st.logs.push(RLog { address: msg.target, topics, data });
                }
                0xf0 | 0xf5 => {
                    if opc == 0xf5 && !f.is(SpecId::CONSTANTINOPLE) {
                        return Err("undefined");
                    }
                    if msg.is_static {
                        return Err("static");
                    }
                    let (value, off, len) = (pop!(), pop!(), pop!());
                    let salt = if opc == 0xf5 { pop!() } else { U256::ZERO };
                    let lw = words(len.saturating_to::<u64>()) as u128;
                    if f.is(SpecId::SHANGHAI) && len > U256::from(49152) {
                        return Err("initcode size");
                    }
                    mem_expand!(off, len);
                    let mut c: u128 = 32000;
                    if opc == 0xf5 {
                        c += 6 * lw;
                    }
                    if f.is(SpecId::SHANGHAI) {
                        c += 2 * lw;
                    }
                    charge!(c);
                    let init = if len.is_zero() { Bytes::new() } else { Bytes::copy_from_slice(&mem[usz(off)..usz(off) + usz(len)]) };
                    ret = Bytes::new();
                    // depth, funds, nonce
                    if msg.depth >= 1024 || self.balance(msg.target) < value || self.st.world.get(&msg.target).map(|a| a.nonce).unwrap_or(0) == u64::MAX {
                        push!(U256::ZERO);
                        continue;
                    }
                    let give = if f.is(SpecId::TANGERINE) { gas - gas / 64 } else { gas };
                    gas -= give;
                    let nonce = self.st.world.get(&msg.target).map(|a| a.nonce).unwrap_or(0);
                    self.st.world.entry(msg.target).or_default().nonce = nonce + 1;
                    let addr = if opc == 0xf0 { create_address(msg.target, nonce) } else { create2_address(msg.target, salt, &init) };
                    let out = self.create(msg.target, addr, value, init, give, msg.depth + 1);
                    gas += out.gas_left;
                    if out.ok {
                        push!(word_of(addr));
                    } else {
                        if out.reverted {
                            ret = out.output;
                        }
                        push!(U256::ZERO);
                    }
                }
                0xf1 | 0xf2 | 0xf4 | 0xfa => {
                    if opc == 0xf4 && !f.is(SpecId::HOMESTEAD) {
                        return Err("undefined");
                    }
                    if opc == 0xfa && !f.is(SpecId::BYZANTIUM) {
                        return Err("undefined");
                    }
                    let req = pop!();
                    let to = addr_of(pop!());
                    let value = if opc == 0xf1 || opc == 0xf2 { pop!() } else { U256::ZERO };
                    let (io, il, oo, ol) = (pop!(), pop!(), pop!(), pop!());
                    if opc == 0xf1 && msg.is_static && !value.is_zero() {
                        return Err("static");
                    }
                    mem_expand!(io, il);
                    mem_expand!(oo, ol);
                    // access cost
                    let mut cost: u128 = if f.is(SpecId::BERLIN) {
                        if self.access_addr(to) {
                            100
                        } else {
                            2600
                        }
                    } else if f.is(SpecId::TANGERINE) {
                        700
                    } else {
                        40
                    };
                    // EIP-7702: calling a delegated account also accesses the delegate
                    let mut code_address = to;
                    let mut delegated = false;
                    if f.is(SpecId::PRAGUE) {
                        if let Some(d) = is_delegation(&self.code(to)) {
                            cost += if self.access_addr(d) { 100 } else { 2600 };
                            code_address = d;
                            delegated = true;
                        }
                    }
                    if !value.is_zero() {
                        cost += 9000;
                    }
                    if opc == 0xf1 {
                        if f.is(SpecId::SPURIOUS_DRAGON) {
                            if !value.is_zero() && self.is_dead(to) {
                                cost += 25000;
                            }
                        } else if !self.exists(to) {
                            cost += 25000;
                        }
                    }
                    charge!(cost);
                    let give = if f.is(SpecId::TANGERINE) {
                        let cap = gas - gas / 64;
                        if req > U256::from(cap) {
                            cap
                        } else {
                            req.to::<u64>()
                        }
                    } else {
                        if req > U256::from(gas) {
                            return Err(OOG);
                        }
                        req.to::<u64>()
                    };
                    gas -= give;
                    let stipend = if !value.is_zero() { 2300 } else { 0 };
                    ret = Bytes::new();
                    if msg.depth >= 1024 || (!value.is_zero() && self.balance(msg.target) < value) {
                        gas += give + stipend;
                        push!(U256::ZERO);
                        continue;
                    }
                    let data = if il.is_zero() { Bytes::new() } else { Bytes::copy_from_slice(&mem[usz(io)..usz(io) + usz(il)]) };
                    let sub = match opc {
                        0xf1 => Msg { caller: msg.target, target: to, code_address, value, transfers: true, data, gas: give + stipend, is_static: msg.is_static, depth: msg.depth + 1, delegated },
                        0xf2 => Msg { caller: msg.target, target: msg.target, code_address, value, transfers: false, data, gas: give + stipend, is_static: msg.is_static, depth: msg.depth + 1, delegated },
                        0xf4 => Msg { caller: msg.caller, target: msg.target, code_address, value: msg.value, transfers: false, data, gas: give, is_static: msg.is_static, depth: msg.depth + 1, delegated },
                        _ => Msg { caller: msg.target, target: to, code_address, value: U256::ZERO, transfers: true, data, gas: give, is_static: true, depth: msg.depth + 1, delegated },
                    };
                    let out = self.call(sub);
                    gas += out.gas_left;
                    if out.ok || out.reverted {
                        ret = out.output.clone();
                    }
                    if !ol.is_zero() && (out.ok || out.reverted) {
                        let n = usz(ol).min(out.output.len());
                        mem[usz(oo)..usz(oo) + n].copy_from_slice(&out.output[..n]);
                    }
                    push!(U256::from(out.ok as u8));
                }
                0xf3 | 0xfd => {
                    if opc == 0xfd && !f.is(SpecId::BYZANTIUM) {
                        return Err("undefined");
                    }
                    let (off, len) = (pop!(), pop!());
                    mem_expand!(off, len);
                    let out = if len.is_zero() { Bytes::new() } else { Bytes::copy_from_slice(&mem[usz(off)..usz(off) + usz(len)]) };
                    return Ok((gas, out, opc == 0xfd));
                }
                0xff => {
                    if msg.is_static {
                        return Err("static");
                    }
                    let ben = addr_of(pop!());
                    let bal = self.balance(msg.target);
                    let mut cost: u128 = if f.is(SpecId::TANGERINE) { 5000 } else { 0 };
                    if f.is(SpecId::BERLIN) && !self.access_addr(ben) {
                        cost += 2600;
                    }
                    if f.is(SpecId::SPURIOUS_DRAGON) {
                        if !bal.is_zero() && self.is_dead(ben) {
                            cost += 25000;
                        }
                    } else if f.is(SpecId::TANGERINE) && !self.exists(ben) {
                        cost += 25000;
                    }
                    charge!(cost);
                    if !f.is(SpecId::LONDON) && !self.st.selfdestructs.contains(&msg.target) {
                        self.st.refund += 24000;
                    }
                    let destroys = !f.is(SpecId::CANCUN) || self.st.created.contains(&msg.target);
                    if ben != msg.target {
                        self.st.world.entry(msg.target).or_default().balance = U256::ZERO;
                        self.st.world.entry(ben).or_default().balance += bal;
                    } else if destroys {
                        self.st.world.entry(msg.target).or_default().balance = U256::ZERO;
                    }
                    self.touch(ben);
                    self.touch(msg.target);
                    if destroys {
                        self.st.selfdestructs.insert(msg.target);
                    }
                    return Ok((gas, Bytes::new(), false));
                }
                _ => return Err("undefined"),
            }
        }
    }
}
