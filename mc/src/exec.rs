//! Cases (self-contained, serialisable) and their execution on the real EVM.
use crate::world::*;
use revm::db::{CacheDB, EmptyDB};
use revm::primitives::{
    AccessListItem, Address, Authorization, BlockEnv, Bytes, CfgEnv, EVMError, Env, EvmState,
    ExecutionResult, Log, Output, RecoveredAuthority, RecoveredAuthorization, SpecId, TxEnv, TxKind,
    B256, U256,
};
use revm::{Database, Evm, Handler};
use serde::{Deserialize, Serialize};

#[derive(Clone, Debug, Serialize, Deserialize, PartialEq)]
pub struct BlockSpec {
    pub number: u64,
    pub timestamp: u64,
    pub coinbase: Address,
    pub basefee: U256,
    pub gas_limit: U256,
    pub excess_blob_gas: u64,
}
impl Default for BlockSpec {
    fn default() -> Self {
        BlockSpec {
            number: 100,
            timestamp: 1000,
            coinbase: COINBASE,
            basefee: U256::ZERO,
            gas_limit: U256::from(1u64 << 62),
            excess_blob_gas: 0,
        }
    }
}
#[derive(Clone, Debug, Serialize, Deserialize, PartialEq)]
pub struct AuthSpec {
    pub chain_id: u64,
    pub address: Address,
    pub nonce: u64,
    pub authority: Option<Address>,
}
#[derive(Clone, Debug, Serialize, Deserialize, PartialEq)]
pub struct TxSpec {
    pub caller: Address,
    pub to: Option<Address>,
    pub value: U256,
    pub data: Bytes,
    pub gas_limit: u64,
    pub gas_price: U256,
    pub priority_fee: Option<U256>,
    pub nonce: Option<u64>,
    pub chain_id: Option<u64>,
    pub access_list: Vec<(Address, Vec<U256>)>,
    pub blob_hashes: Vec<B256>,
    pub max_fee_per_blob_gas: Option<U256>,
    pub auth_list: Option<Vec<AuthSpec>>,
}
impl Default for TxSpec {
    fn default() -> Self {
        TxSpec {
            caller: SENDER,
            to: Some(A),
            value: U256::ZERO,
            data: Bytes::new(),
            gas_limit: 1_000_000,
            gas_price: U256::ZERO,
            priority_fee: None,
            nonce: None,
            chain_id: None,
            access_list: vec![],
            blob_hashes: vec![],
            max_fee_per_blob_gas: None,
            auth_list: None,
        }
    }
}
#[derive(Clone, Debug, Serialize, Deserialize, PartialEq)]
pub struct TxCase {
    pub spec: String,
    pub world: Plain,
    pub block: BlockSpec,
    pub tx: TxSpec,
    pub reward: bool,
}
impl TxCase {
    pub fn new(spec: SpecId, world: Plain) -> Self {
        TxCase { spec: spec_name(spec), world, block: BlockSpec::default(), tx: TxSpec::default(), reward: true }
    }
    pub fn spec(&self) -> SpecId {
        spec_from_name(&self.spec)
    }
    pub fn env(&self) -> Box<Env> {
        let spec = self.spec();
        let mut block = BlockEnv {
            number: U256::from(self.block.number),
            coinbase: self.block.coinbase,
            timestamp: U256::from(self.block.timestamp),
            gas_limit: self.block.gas_limit,
            basefee: self.block.basefee,
            difficulty: U256::from(0x20000),
            prevrandao: Some(B256::with_last_byte(0x77)),
            blob_excess_gas_and_price: None,
        };
        block.set_blob_excess_gas_and_price(self.block.excess_blob_gas, spec.is_enabled_in(SpecId::PRAGUE));
        let t = &self.tx;
        let mut tx = TxEnv::default();
        tx.caller = t.caller;
        tx.transact_to = match t.to {
            Some(a) => TxKind::Call(a),
            None => TxKind::Create,
        };
        tx.value = t.value;
        tx.data = t.data.clone();
        tx.gas_limit = t.gas_limit;
        tx.gas_price = t.gas_price;
        tx.gas_priority_fee = t.priority_fee;
        tx.nonce = t.nonce;
        tx.chain_id = t.chain_id;
        tx.access_list = t
            .access_list
            .iter()
            .map(|(a, ks)| AccessListItem { address: *a, storage_keys: ks.iter().map(|k| B256::from(k.to_be_bytes::<32>())).collect() })
            .collect();
        tx.blob_hashes = t.blob_hashes.clone();
        tx.max_fee_per_blob_gas = t.max_fee_per_blob_gas;
        tx.authorization_list = t.auth_list.as_ref().map(|l| {
            l.iter()
                .map(|a| {
                    RecoveredAuthorization::new_unchecked(
                        Authorization { chain_id: U256::from(a.chain_id), address: a.address, nonce: a.nonce },
                        match a.authority {
                            Some(x) => RecoveredAuthority::Valid(x),
                            None => RecoveredAuthority::Invalid,
                        },
                    )
                })
                .collect::<Vec<_>>()
                .into()
        });
        Env::boxed(CfgEnv::default(), block, tx)
    }
}

#[derive(Clone, Debug, PartialEq, Eq, Hash, Serialize)]
pub enum Class {
    Success,
    Revert,
    Halt,
    Invalid,
    Fatal,
}
#[derive(Clone, Debug)]
pub struct Outcome {
    pub class: Class,
    pub reason: String,
    pub gas_used: u64,
    pub gas_refunded: u64,
    pub output: Bytes,
    pub logs: Vec<Log>,
    pub created: Option<Address>,
    pub state: EvmState,
}
impl Outcome {
    pub fn from_result<E: std::fmt::Debug>(r: Result<revm::primitives::ResultAndState, EVMError<E>>) -> Outcome {
        match r {
            Ok(rs) => {
                let state = rs.state;
                match rs.result {
                    ExecutionResult::Success { reason, gas_used, gas_refunded, logs, output } => {
                        let (out, created) = match output {
                            Output::Call(b) => (b, None),
                            Output::Create(b, a) => (b, a),
                        };
                        Outcome { class: Class::Success, reason: format!("{reason:?}"), gas_used, gas_refunded, output: out, logs, created, state }
                    }
                    ExecutionResult::Revert { gas_used, output } => {
                        Outcome { class: Class::Revert, reason: "Revert".into(), gas_used, gas_refunded: 0, output, logs: vec![], created: None, state }
                    }
                    ExecutionResult::Halt { reason, gas_used } => {
                        Outcome { class: Class::Halt, reason: format!("{reason:?}"), gas_used, gas_refunded: 0, output: Bytes::new(), logs: vec![], created: None, state }
                    }
                }
            }
            Err(EVMError::Transaction(t)) => Outcome {
                class: Class::Invalid,
                reason: format!("{t:?}"),
                gas_used: 0,
                gas_refunded: 0,
                output: Bytes::new(),
                logs: vec![],
                created: None,
                state: Default::default(),
            },
            Err(e) => Outcome {
                class: Class::Fatal,
                reason: format!("{e:?}"),
                gas_used: 0,
                gas_refunded: 0,
                output: Bytes::new(),
                logs: vec![],
                created: None,
                state: Default::default(),
            },
        }
    }
    /// signature of everything the transaction-level properties compare
    pub fn signature(&self) -> (Class, String, u64, u64, Bytes, usize) {
        (self.class.clone(), self.reason.clone(), self.gas_used, self.gas_refunded, self.output.clone(), self.logs.len())
    }
}

pub fn build_evm<'a, EXT, DB: Database>(case: &TxCase, db: DB, ext: EXT) -> Evm<'a, EXT, DB> {
    let spec = case.spec();
    let b = Evm::builder().with_db(db).with_external_context(ext).with_env(case.env()).with_spec_id(spec);
    if case.reward {
        b.build()
    } else {
        b.with_handler(Handler::mainnet_with_spec(spec, false)).build()
    }
}

/// Plain execution over a CacheDB built from the case's world.
pub fn exec(case: &TxCase) -> Outcome {
    let db = to_cachedb(&case.world);
    let mut evm = build_evm(case, db, ());
    Outcome::from_result(evm.transact())
}

/// Execute and commit into a copy of the plain world with the independent commit rule.
pub fn run_commit(case: &TxCase) -> (Outcome, Plain) {
    let o = exec(case);
    let mut p = case.world.clone();
    commit_plain(&mut p, &o.state, case.spec());
    (o, p)
}

pub type Cdb = CacheDB<EmptyDB>;

use crate::monitor::{monitor_register, Mon};

/// Execution with the step/frame monitors attached. Panics inside the EVM are caught and reported
/// as a `Fatal` outcome with the panic message.
pub fn exec_monitored(case: &TxCase, record_steps: bool) -> (Outcome, Mon, u64) {
    exec_monitored_cfg(case, Mon::new(record_steps))
}
pub fn exec_monitored_cfg(case: &TxCase, mon: Mon) -> (Outcome, Mon, u64) {
    let db = to_cachedb(&case.world);
    let spec = case.spec();
    let b = Evm::builder().with_db(db).with_external_context(mon).with_env(case.env()).with_spec_id(spec);
    let b = if case.reward { b } else { b.with_handler(Handler::mainnet_with_spec(spec, false)) };
    let mut evm = b.append_handler_register(monitor_register).build();
    let r = crate::fw::catch(|| evm.transact());
    let end_depth = evm.context.evm.journaled_state.depth();
    let mon = std::mem::take(&mut evm.context.external);
    match r {
        Ok(r) => (Outcome::from_result(r), mon, end_depth),
        Err(p) => (
            Outcome { class: Class::Fatal, reason: format!("panic: {p}"), gas_used: 0, gas_refunded: 0, output: Bytes::new(), logs: vec![], created: None, state: Default::default() },
            mon,
            end_depth,
        ),
    }
}
