//! A plain database that implements every query of `Database` / `DatabaseRef` (including
//! `has_storage`) directly from maps: the "underlying data" that wrappers are compared with.
use crate::world::*;
use revm::primitives::{keccak256, AccountInfo, Address, Bytecode, B256, KECCAK_EMPTY, U256};
use revm::{Database, DatabaseRef};
use std::convert::Infallible;

#[derive(Clone, Debug, Default)]
pub struct TestDb {
    pub accounts: Plain,
    /// answer `basic` with None for accounts whose info is empty (a database that stores no record for
    /// empty accounts, although storage may exist under the address)
    pub hide_empty: bool,
}
impl TestDb {
    pub fn new(p: &Plain) -> Self {
        TestDb { accounts: p.clone(), hide_empty: false }
    }
}
pub fn block_hash_of(n: u64) -> B256 {
    keccak256(n.to_be_bytes())
}
impl DatabaseRef for TestDb {
    type Error = Infallible;
    fn basic_ref(&self, address: Address) -> Result<Option<AccountInfo>, Infallible> {
        Ok(self.accounts.get(&address).filter(|a| !(self.hide_empty && a.is_empty())).map(|a| {
            let mut i = a.info();
            i.code = None; // code is served by code_by_hash
            i
        }))
    }
    fn code_by_hash_ref(&self, code_hash: B256) -> Result<Bytecode, Infallible> {
        if code_hash == KECCAK_EMPTY {
            return Ok(Bytecode::default());
        }
        for a in self.accounts.values() {
            if a.code_hash() == code_hash {
                return Ok(a.info().code.unwrap());
            }
        }
        Ok(Bytecode::default())
    }
    fn has_storage_ref(&self, address: Address) -> Result<bool, Infallible> {
        Ok(self.accounts.get(&address).map(|a| a.storage.values().any(|v| !v.is_zero())).unwrap_or(false))
    }
    fn storage_ref(&self, address: Address, index: U256) -> Result<U256, Infallible> {
        Ok(self.accounts.get(&address).and_then(|a| a.storage.get(&index).copied()).unwrap_or_default())
    }
    fn block_hash_ref(&self, number: u64) -> Result<B256, Infallible> {
        Ok(block_hash_of(number))
    }
}
impl Database for TestDb {
    type Error = Infallible;
    fn basic(&mut self, address: Address) -> Result<Option<AccountInfo>, Infallible> {
        self.basic_ref(address)
    }
    fn code_by_hash(&mut self, code_hash: B256) -> Result<Bytecode, Infallible> {
        self.code_by_hash_ref(code_hash)
    }
    fn has_storage(&mut self, address: Address) -> Result<bool, Infallible> {
        self.has_storage_ref(address)
    }
    fn storage(&mut self, address: Address, index: U256) -> Result<U256, Infallible> {
        self.storage_ref(address, index)
    }
    fn block_hash(&mut self, number: u64) -> Result<B256, Infallible> {
        self.block_hash_ref(number)
    }
}
