//! Monitors attached through revm's own extension points (handler registers): no source hooks.
//! The monitor state lives in the EVM's external context, so the wrappers capture nothing.
use revm::handler::register::EvmHandler;
use revm::interpreter::{InstructionResult, Interpreter};
use revm::primitives::{Address, U256};
use revm::{Context, Database, FrameOrResult};
use std::sync::Arc;

#[derive(Clone, Debug)]
pub struct Step {
    pub depth: u64,
    pub pc: usize,
    pub op: u8,
    pub gas_before: u64,
    pub gas_after: u64,
    pub refund_before: i64,
    pub refund_after: i64,
    pub result: InstructionResult,
    pub is_static: bool,
    pub is_eof: bool,
    pub address: Address,
    pub caller: Address,
    pub call_value: U256,
    /// up to 7 top-of-stack words before the instruction (index 0 = top)
    pub stack: Vec<U256>,
    pub stack_len_before: usize,
    pub stack_len_after: usize,
    pub mem_len_before: usize,
    pub mem_len_after: usize,
    /// top of the stack after the instruction (when memory recording is on)
    pub top_after: Option<U256>,
    /// call-family / create instruction that handed control to the EVM: the frame's memory at that point
    pub mem_at_call: Option<Vec<u8>>,
    /// the frame's memory when its next instruction starts
    pub mem_after_return: Option<Vec<u8>>,
}

#[derive(Clone, Debug, PartialEq)]
pub enum FrameKind {
    Call,
    Create,
    EofCreate,
}
#[derive(Clone, Debug)]
pub struct FrameAttempt {
    pub kind: FrameKind,
    pub depth_before: u64,
    /// journal depth right after the attempt resolved (immediately, or when the frame returned)
    pub depth_after: Option<u64>,
    pub started_frame: bool,
    pub result: Option<InstructionResult>,
    pub is_static: bool,
    pub target: Address,
    pub scheme: String,
    pub gas_limit: u64,
    /// address of the frame's code (call) or of the created account (create), when a frame started
    pub code_address: Address,
}
#[derive(Clone, Debug, PartialEq)]
pub enum MEv {
    Step(usize),
    FrameStart(usize),
    /// an attempt that resolved without a frame (precompile, early rejection, empty code)
    Immediate(usize),
    FrameEnd(usize),
}

/// A SELFDESTRUCT instruction that completed (ground truth read from the public journaled state).
#[derive(Clone, Debug, PartialEq)]
pub struct SdEvent {
    pub address: Address,
    pub beneficiary: Address,
    pub balance_before: U256,
    pub balance_after: U256,
    pub depth: u64,
}

#[derive(Default, Debug)]
pub struct Mon {
    /// every completed SELFDESTRUCT, in execution order (also those in frames that later revert)
    pub sd_all: Vec<SdEvent>,
    /// SELFDESTRUCTs of frames that are still open, one list per open frame
    pub sd_stack: Vec<Vec<SdEvent>>,
    /// SELFDESTRUCTs whose frames (and all ancestors) completed successfully
    pub sd_committed: Vec<SdEvent>,
    /// number of opcode-0xff executions that did not complete
    pub sd_failed: u64,
    /// every log appended to the journal, in order (also those of frames that later revert)
    pub logs_seen: Vec<revm::primitives::Log>,
    /// C10: snapshot the world when a static region is entered and compare when it is left
    pub check_static: bool,
    pub static_snaps: Vec<(usize, StateProj)>,
    pub static_violations: Vec<(String, String)>,
    pub static_regions: u64,
    pub record_steps: bool,
    /// interleaving of recorded steps and frame events
    pub events: Vec<MEv>,
    pub steps: Vec<Step>,
    pub max_steps: usize,
    pub step_count: u64,
    pub attempts: Vec<FrameAttempt>,
    /// indexes into `attempts` of frames that are currently open
    pub open: Vec<usize>,
    pub ip_violations: Vec<String>,
    pub max_depth_seen: u64,
    /// C11: record memory contents around calls and the stack top after every instruction
    pub record_mem: bool,
    /// (journal depth, step index) of call instructions whose frame has not resumed yet
    pub pending_calls: Vec<(u64, usize)>,
    /// record (journal depth, EOF code section, pc) of every EOF instruction executed
    pub trace_eof_pcs: bool,
    pub eof_pcs: Vec<(u64, usize, usize)>,
}
impl Mon {
    pub fn new(record_steps: bool) -> Self {
        Mon { record_steps, max_steps: 200_000, ..Default::default() }
    }
}
/// World-state projection that ignores access status (warm/cold, touched).
pub type StateProj = (Vec<(Address, U256, u64, revm::primitives::B256, bool, bool, Vec<(U256, U256)>)>, Vec<((Address, U256), U256)>, usize);
pub fn project_state(js: &revm::JournaledState) -> StateProj {
    let mut accs: Vec<_> = js
        .state
        .iter()
        .map(|(a, acc)| {
            let mut st: Vec<(U256, U256)> = acc.storage.iter().map(|(k, v)| (*k, v.present_value)).collect();
            st.sort();
            (*a, acc.info.balance, acc.info.nonce, acc.info.code_hash, acc.is_created(), acc.is_selfdestructed(), st)
        })
        .collect();
    accs.sort();
    let mut t: Vec<_> = js.transient_storage.iter().filter(|(_, v)| !v.is_zero()).map(|(k, v)| (*k, *v)).collect();
    t.sort();
    (accs, t, js.logs.len())
}
/// Compare a snapshot taken when the static region started with the state when it ended. Accounts and
/// slots that were only loaded in between must still hold their loaded (original) values.
fn compare_static(before: &StateProj, js: &revm::JournaledState) -> Option<String> {
    let after = project_state(js);
    if before.1 != after.1 {
        return Some(format!("transient storage changed: {:?} -> {:?}", before.1, after.1));
    }
    if before.2 != after.2 {
        return Some(format!("logs changed: {} -> {}", before.2, after.2));
    }
    for a in &after.0 {
        match before.0.iter().find(|b| b.0 == a.0) {
            Some(b) => {
                if (b.1, b.2, b.3, b.4, b.5) != (a.1, a.2, a.3, a.4, a.5) {
                    return Some(format!("account {} changed: {:?} -> {:?}", a.0, (b.1, b.2, b.3, b.4, b.5), (a.1, a.2, a.3, a.4, a.5)));
                }
                for (k, v) in &a.6 {
                    match b.6.iter().find(|x| x.0 == *k) {
                        Some((_, bv)) if bv != v => return Some(format!("storage {}[{k}] changed: {bv} -> {v}", a.0)),
                        Some(_) => {}
                        None => {
                            let orig = js.state[&a.0].storage[k].original_value;
                            if orig != *v {
                                return Some(format!("storage {}[{k}] loaded as {orig} and left as {v}", a.0));
                            }
                        }
                    }
                }
            }
            None => {
                let acc = &js.state[&a.0];
                if acc.is_created() || acc.is_selfdestructed() || acc.storage.values().any(|s| s.present_value != s.original_value) {
                    return Some(format!("account {} was first loaded inside the static call and modified", a.0));
                }
            }
        }
    }
    None
}

pub trait HasMon {
    fn mon(&mut self) -> &mut Mon;
}
impl HasMon for Mon {
    fn mon(&mut self) -> &mut Mon {
        self
    }
}

#[inline]
fn ip_in_bounds(i: &Interpreter) -> bool {
    let start = i.bytecode.as_ptr() as usize;
    let ip = i.instruction_pointer as usize;
    ip >= start && ip < start + i.bytecode.len()
}

/// Handler register: step monitor + frame monitor.
pub fn monitor_register<EXT: HasMon, DB: Database>(h: &mut EvmHandler<'_, EXT, DB>) {
    h.instruction_table.update_all(|prev, interp: &mut Interpreter, host: &mut Context<EXT, DB>| {
        let depth = host.evm.journaled_state.depth();
        // `step` has already advanced the pointer past the opcode byte
        let pc = interp.program_counter().wrapping_sub(1);
        let op = interp.bytecode.get(pc).copied().unwrap_or(0);
        if interp.is_eof && host.external.mon().trace_eof_pcs {
            let sec = interp.function_stack.current_code_idx;
            let m = host.external.mon();
            if m.eof_pcs.len() < 100_000 {
                m.eof_pcs.push((depth, sec, pc));
            }
        }
        let rec = {
            let m = host.external.mon();
            m.step_count += 1;
            if depth > m.max_depth_seen {
                m.max_depth_seen = depth;
            }
            m.record_steps && m.steps.len() < m.max_steps
        };
        if rec && host.external.mon().record_mem {
            let m = host.external.mon();
            if let Some((d, idx)) = m.pending_calls.last().copied() {
                if d == depth {
                    m.pending_calls.pop();
                    let snap = interp.shared_memory.context_memory().to_vec();
                    m.steps[idx].mem_after_return = Some(snap);
                } else if d > depth {
                    // the frame that issued the call is gone (it cannot resume): drop the entry
                    m.pending_calls.pop();
                }
            }
        }
        let pre = if rec {
            let d = interp.stack.data();
            let n = d.len().min(7);
            let stack: Vec<U256> = (0..n).map(|i| d[d.len() - 1 - i]).collect();
            Some((interp.gas.remaining(), interp.gas.refunded(), stack, d.len(), interp.shared_memory.len()))
        } else {
            None
        };
        let sd_pre = if op == 0xff && !interp.is_eof {
            let a = interp.contract.target_address;
            let bal = host.evm.journaled_state.state.get(&a).map(|x| x.info.balance).unwrap_or_default();
            let ben = interp.stack.data().last().map(|w| Address::from_word(revm::primitives::B256::from(w.to_be_bytes::<32>())));
            Some((a, bal, ben))
        } else {
            None
        };
        let logs_before = host.evm.journaled_state.logs.len();
        prev(interp, host);
        if host.evm.journaled_state.logs.len() > logs_before {
            let new: Vec<_> = host.evm.journaled_state.logs[logs_before..].to_vec();
            host.external.mon().logs_seen.extend(new);
        }
        if let Some((a, bal, ben)) = sd_pre {
            if interp.instruction_result == InstructionResult::SelfDestruct {
                let after = host.evm.journaled_state.state.get(&a).map(|x| x.info.balance).unwrap_or_default();
                let ev = SdEvent { address: a, beneficiary: ben.unwrap_or_default(), balance_before: bal, balance_after: after, depth };
                let m = host.external.mon();
                m.sd_all.push(ev.clone());
                match m.sd_stack.last_mut() {
                    Some(l) => l.push(ev),
                    None => m.sd_committed.push(ev),
                }
            } else {
                host.external.mon().sd_failed += 1;
            }
        }
        // instruction pointer must stay inside the code buffer whenever execution continues
        if interp.instruction_result == InstructionResult::Continue && !ip_in_bounds(interp) {
            let m = host.external.mon();
            if m.ip_violations.len() < 4 {
                m.ip_violations.push(format!(
                    "after opcode 0x{op:02x} at pc {pc} the instruction pointer is at offset {} of a {}-byte buffer",
                    (interp.instruction_pointer as isize) - (interp.bytecode.as_ptr() as isize),
                    interp.bytecode.len()
                ));
            }
            // stop the frame instead of letting the interpreter read out of bounds
            interp.instruction_result = InstructionResult::FatalExternalError;
        }
        if let Some((gas_before, refund_before, stack, sl, ml)) = pre {
            let s = Step {
                depth,
                pc,
                op,
                gas_before,
                gas_after: interp.gas.remaining(),
                refund_before,
                refund_after: interp.gas.refunded(),
                result: interp.instruction_result,
                is_static: interp.is_static,
                is_eof: interp.is_eof,
                address: interp.contract.target_address,
                caller: interp.contract.caller,
                call_value: interp.contract.call_value,
                stack,
                stack_len_before: sl,
                stack_len_after: interp.stack.len(),
                mem_len_before: ml,
                mem_len_after: interp.shared_memory.len(),
                top_after: None,
                mem_at_call: None,
                mem_after_return: None,
            };
            let record_mem = host.external.mon().record_mem;
            let mut s = s;
            if record_mem {
                s.top_after = interp.stack.data().last().copied();
                if matches!(op, 0xf0 | 0xf1 | 0xf2 | 0xf4 | 0xf5 | 0xfa) && interp.instruction_result == InstructionResult::CallOrCreate {
                    s.mem_at_call = Some(interp.shared_memory.context_memory().to_vec());
                }
            }
            let is_call = s.mem_at_call.is_some();
            let m = host.external.mon();
            m.steps.push(s);
            let i = m.steps.len() - 1;
            m.events.push(MEv::Step(i));
            if is_call {
                m.pending_calls.push((depth, i));
            }
        }
    });

    // ---- frame monitor ----
    let old = h.execution.call.clone();
    h.execution.call = Arc::new(move |ctx, inputs| {
        let d0 = ctx.evm.journaled_state.depth();
        let att = FrameAttempt {
            kind: FrameKind::Call,
            depth_before: d0,
            depth_after: None,
            started_frame: false,
            result: None,
            is_static: inputs.is_static,
            target: inputs.target_address,
            scheme: format!("{:?}", inputs.scheme),
            gas_limit: inputs.gas_limit,
            code_address: inputs.bytecode_address,
        };
        let want_static_check = {
            let m = ctx.external.mon();
            let parent_static = m.open.last().map(|i| m.attempts[*i].is_static).unwrap_or(false);
            if m.check_static && parent_static && !inputs.is_static {
                m.static_violations.push(("static-not-inherited".into(), format!("{:?} to {} issued inside a static frame is not static", inputs.scheme, inputs.target_address)));
            }
            m.check_static && inputs.is_static && !parent_static
        };
        let snap = if want_static_check { Some(project_state(&ctx.evm.journaled_state)) } else { None };
        let r = old(ctx, inputs);
        finish_attempt(ctx, att, &r);
        if let Some(sn) = snap {
            if matches!(r, Ok(FrameOrResult::Frame(_))) {
                let m = ctx.external.mon();
                let idx = m.attempts.len() - 1;
                m.static_snaps.push((idx, sn));
                m.static_regions += 1;
            } else if let Some(d) = compare_static(&sn, &ctx.evm.journaled_state) {
                ctx.external.mon().static_violations.push(("static-call-changed-state".into(), d));
            }
        }
        r
    });
    let old = h.execution.create.clone();
    h.execution.create = Arc::new(move |ctx, inputs| {
        let d0 = ctx.evm.journaled_state.depth();
        let att = FrameAttempt {
            kind: FrameKind::Create,
            depth_before: d0,
            depth_after: None,
            started_frame: false,
            result: None,
            is_static: false,
            target: Address::ZERO,
            scheme: format!("{:?}", inputs.scheme),
            gas_limit: inputs.gas_limit,
            code_address: Address::ZERO,
        };
        let r = old(ctx, inputs);
        finish_attempt(ctx, att, &r);
        r
    });
    let old = h.execution.eofcreate.clone();
    h.execution.eofcreate = Arc::new(move |ctx, inputs| {
        let d0 = ctx.evm.journaled_state.depth();
        let att = FrameAttempt {
            kind: FrameKind::EofCreate,
            depth_before: d0,
            depth_after: None,
            started_frame: false,
            result: None,
            is_static: false,
            target: Address::ZERO,
            scheme: "EofCreate".into(),
            gas_limit: inputs.gas_limit,
            code_address: Address::ZERO,
        };
        let r = old(ctx, inputs);
        finish_attempt(ctx, att, &r);
        r
    });
    let old = h.execution.call_return.clone();
    h.execution.call_return = Arc::new(move |ctx, frame, result| {
        let res = result.result;
        let r = old(ctx, frame, result);
        close_frame(ctx, res);
        r
    });
    let old = h.execution.create_return.clone();
    h.execution.create_return = Arc::new(move |ctx, frame, result| {
        let r = old(ctx, frame, result);
        let res = r.as_ref().map(|o| o.result.result).unwrap_or(InstructionResult::FatalExternalError);
        close_frame(ctx, res);
        r
    });
    let old = h.execution.eofcreate_return.clone();
    h.execution.eofcreate_return = Arc::new(move |ctx, frame, result| {
        let r = old(ctx, frame, result);
        let res = r.as_ref().map(|o| o.result.result).unwrap_or(InstructionResult::FatalExternalError);
        close_frame(ctx, res);
        r
    });
}

fn finish_attempt<EXT: HasMon, DB: Database, E>(ctx: &mut Context<EXT, DB>, mut att: FrameAttempt, r: &Result<FrameOrResult, E>) {
    let d = ctx.evm.journaled_state.depth();
    let m = ctx.external.mon();
    match r {
        Ok(FrameOrResult::Frame(f)) => {
            att.started_frame = true;
            match f {
                revm::Frame::Create(c) => att.code_address = c.created_address,
                revm::Frame::EOFCreate(c) => att.code_address = c.created_address,
                _ => {}
            }
            m.attempts.push(att);
            let idx = m.attempts.len() - 1;
            m.open.push(idx);
            m.events.push(MEv::FrameStart(idx));
            m.sd_stack.push(vec![]);
        }
        Ok(FrameOrResult::Result(res)) => {
            att.depth_after = Some(d);
            att.result = Some(res.interpreter_result().result);
            m.attempts.push(att);
            let idx = m.attempts.len() - 1;
            m.events.push(MEv::Immediate(idx));
        }
        Err(_) => {
            att.depth_after = Some(d);
            m.attempts.push(att);
        }
    }
}
fn close_frame<EXT: HasMon, DB: Database>(ctx: &mut Context<EXT, DB>, res: InstructionResult) {
    let d = ctx.evm.journaled_state.depth();
    {
        let top = ctx.external.mon().open.last().copied();
        if let Some(idx) = top {
            if ctx.external.mon().static_snaps.last().map(|(i, _)| *i == idx).unwrap_or(false) {
                let (_, sn) = ctx.external.mon().static_snaps.pop().unwrap();
                if let Some(dsc) = compare_static(&sn, &ctx.evm.journaled_state) {
                    ctx.external.mon().static_violations.push(("static-call-changed-state".into(), dsc));
                }
            }
        }
    }
    let m = ctx.external.mon();
    if let Some(idx) = m.open.pop() {
        m.attempts[idx].depth_after = Some(d);
        m.attempts[idx].result = Some(res);
        m.events.push(MEv::FrameEnd(idx));
    }
    if let Some(evs) = m.sd_stack.pop() {
        let ok = matches!(res, InstructionResult::Stop | InstructionResult::Return | InstructionResult::SelfDestruct | InstructionResult::ReturnContract);
        if ok {
            match m.sd_stack.last_mut() {
                Some(p) => p.extend(evs),
                None => m.sd_committed.extend(evs),
            }
        }
    }
}
