//! Direct use of the real interpreter pieces: instruction tables, single instruction execution.
use revm::interpreter::opcode::{make_instruction_table, InstructionTable};
use revm::interpreter::{Contract, DummyHost, Interpreter};
use revm::primitives::{spec_to_generic, Address, Bytecode, Bytes, Env, SpecId, U256};

pub fn table(spec: SpecId) -> InstructionTable<DummyHost> {
    spec_to_generic!(spec, make_instruction_table::<DummyHost, SPEC>())
}

pub fn contract(code: &[u8]) -> Contract {
    Contract::new(
        Bytes::new(),
        Bytecode::new_legacy(Bytes::copy_from_slice(code)),
        None,
        Address::ZERO,
        None,
        Address::ZERO,
        U256::ZERO,
    )
}

pub fn new_interp(code: &[u8], gas: u64) -> Interpreter {
    Interpreter::new(contract(code), gas, false)
}

pub fn host() -> DummyHost {
    DummyHost::new(Env::default())
}

/// Same body as `Interpreter::step` (which is crate-private): fetch, advance, dispatch.
pub fn step(i: &mut Interpreter, t: &InstructionTable<DummyHost>, h: &mut DummyHost) {
    let opcode = unsafe { *i.instruction_pointer };
    i.instruction_pointer = unsafe { i.instruction_pointer.offset(1) };
    (t[opcode as usize])(i, h)
}
