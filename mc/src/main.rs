#![allow(dead_code)]
mod asm;
mod exec;
mod explore;
mod world;
mod fw;
mod gen;
mod interp;
mod lattice;
mod macros;
mod monitor;
mod refevm;
mod testdb;
mod props;

use fw::*;
use std::time::Instant;

fn main() {
    let args: Vec<String> = std::env::args().collect();
    if args.len() < 3 {
        eprintln!("usage: mc <Cxx> quick|thorough [--replay <file>]");
        std::process::exit(2);
    }
    let prop = args[1].clone();
    let tier = match args[2].as_str() {
        "quick" => Tier::Quick,
        "thorough" => Tier::Thorough,
        _ => {
            eprintln!("bad tier");
            std::process::exit(2)
        }
    };
    let seed = std::env::var("VERIF_SEED").ok().and_then(|s| s.parse().ok()).unwrap_or(0u64);
    let budget_s = std::env::var("VERIF_BUDGET_S")
        .ok()
        .and_then(|s| s.parse().ok())
        .unwrap_or(tier.pick(75.0, 840.0));
    let ctx = Ctx { prop: prop.clone(), tier, seed, start: Instant::now(), budget_s };
    if std::env::var("VERIF_PANIC").is_err() {
        silence_panics();
    }
    // the reference EVM recurses once per call depth (up to 1025 frames)
    let _ = rayon::ThreadPoolBuilder::new().stack_size(1 << 30).build_global();
    start_watchdog(prop.clone(), 30.0);
    let replay_path = args.iter().position(|a| a == "--replay").map(|i| args[i + 1].clone());
    let code = props::dispatch(&ctx, replay_path.as_deref());
    std::process::exit(code);
}
