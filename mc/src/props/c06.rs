//! C06: reverting to a checkpoint restores exactly the checkpointed state — E1 on the real
//! `JournaledState`. The reference is a stack of snapshots of the observable projection; no
//! hand-written journal semantics.
use crate::explore::{self, Canon, Model};
use crate::fw::*;
use revm::db::{CacheDB, EmptyDB};
use revm::interpreter::InstructionResult;
use revm::primitives::{
    address, AccountInfo, Address, Bytecode, Bytes, HashSet, Log, SpecId, B256, KECCAK_EMPTY, U256,
};
use revm::{Database, JournalCheckpoint, JournaledState};
use serde::{Deserialize, Serialize};
use serde_json::{json, Value};

pub const E: Address = address!("00000000000000000000000000000000000000e0"); // EOA, balance 5
pub const K: Address = address!("00000000000000000000000000000000000000c0"); // contract, slots {0:7,1:0}
pub const N: Address = address!("00000000000000000000000000000000000000a0"); // absent
pub const R: Address = address!("00000000000000000000000000000000000000f0"); // RICH: 2^256-1
pub const P: Address = address!("00000000000000000000000000000000000000b0"); // tx-level pre-warmed, balance 1
pub const WORLD: [Address; 5] = [E, K, N, R, P];
pub const SLOTS: [u64; 2] = [0, 1];

fn aname(a: &Address) -> &'static str {
    match *a {
        x if x == E => "E",
        x if x == K => "K",
        x if x == N => "N",
        x if x == R => "R",
        x if x == P => "P",
        _ => "?",
    }
}
fn addr(i: u8) -> Address {
    WORLD[i as usize]
}

#[derive(Clone, Debug, Serialize, Deserialize, PartialEq)]
pub enum V {
    Zero,
    One,
    Three,
    BalPlus1,
    Max,
}
#[derive(Clone, Debug, Serialize, Deserialize, PartialEq)]
pub enum Op {
    /// tx-level access-list entry (initial histories only)
    AccessList(u8, u64),
    Load(u8),
    LoadCode(u8),
    Touch(u8),
    Transfer(u8, u8, V),
    IncNonce(u8),
    Sload(u8, u64),
    Sstore(u8, u64, u64),
    Tstore(u8, u64, u64),
    Log,
    Selfdestruct(u8, u8),
    Create { caller: u8, target: u8, value: V },
    SetCode(u8),
    Checkpoint,
    Commit,
    Revert,
}

#[derive(Clone, PartialEq, Eq, Hash, Debug)]
pub struct AccProj {
    balance: U256,
    nonce: u64,
    code_hash: B256,
    touched: bool,
    created: bool,
    destroyed: bool,
    not_existing: bool,
    cold: bool,
    /// slot -> (present, original, cold)
    slots: Vec<(u64, U256, U256, bool)>,
}
#[derive(Clone, PartialEq, Eq, Hash, Debug)]
pub struct Proj {
    accounts: Vec<(Address, AccProj)>,
    transient: Vec<((Address, U256), U256)>,
    logs: Vec<Log>,
    depth: usize,
}

#[derive(Clone)]
pub struct S {
    js: JournaledState,
    db: CacheDB<EmptyDB>,
    cps: Vec<(JournalCheckpoint, Proj)>,
    last: String,
    prewarmed: Vec<(Address, u64)>,
}

pub struct M {
    pub spec: SpecId,
    /// start from the histories that are already inside nested frames
    pub nested: bool,
}

fn base_db() -> CacheDB<EmptyDB> {
    let mut db = CacheDB::new(EmptyDB::default());
    db.insert_account_info(E, AccountInfo::from_balance(U256::from(5)));
    let code = Bytecode::new_legacy(Bytes::from_static(&[0x00]));
    db.insert_account_info(
        K,
        AccountInfo { balance: U256::from(2), nonce: 1, code_hash: code.hash_slow(), code: Some(code) },
    );
    db.insert_account_storage(K, U256::from(0), U256::from(7)).unwrap();
    db.insert_account_info(R, AccountInfo::from_balance(U256::MAX));
    db.insert_account_info(P, AccountInfo::from_balance(U256::from(1)));
    db
}

pub fn project(js: &JournaledState, db: &mut CacheDB<EmptyDB>) -> Proj {
    let mut accounts = vec![];
    for a in WORLD {
        let dbinfo = db.basic(a).unwrap();
        let p = match js.state.get(&a) {
            Some(acc) => {
                let mut slots = vec![];
                for k in SLOTS {
                    let key = U256::from(k);
                    match acc.storage.get(&key) {
                        Some(s) => slots.push((k, s.present_value, s.original_value, s.is_cold)),
                        None => {
                            let v = if acc.is_created() { U256::ZERO } else { db.storage(a, key).unwrap() };
                            slots.push((k, v, v, true))
                        }
                    }
                }
                AccProj {
                    balance: acc.info.balance,
                    nonce: acc.info.nonce,
                    code_hash: if acc.info.code_hash == B256::ZERO { KECCAK_EMPTY } else { acc.info.code_hash },
                    touched: acc.is_touched(),
                    created: acc.is_created(),
                    destroyed: acc.is_selfdestructed(),
                    not_existing: acc.is_loaded_as_not_existing(),
                    cold: acc.status.contains(revm::primitives::AccountStatus::Cold),
                    slots,
                }
            }
            None => {
                let info = dbinfo.clone().unwrap_or_default();
                let slots = SLOTS
                    .iter()
                    .map(|k| {
                        let v = db.storage(a, U256::from(*k)).unwrap();
                        (*k, v, v, true)
                    })
                    .collect();
                AccProj {
                    balance: info.balance,
                    nonce: info.nonce,
                    code_hash: if info.code_hash == B256::ZERO { KECCAK_EMPTY } else { info.code_hash },
                    touched: false,
                    created: false,
                    destroyed: false,
                    not_existing: dbinfo.is_none(),
                    cold: !js.warm_preloaded_addresses.contains(&a),
                    slots,
                }
            }
        };
        accounts.push((a, p));
    }
    let mut transient: Vec<_> = js.transient_storage.iter().filter(|(_, v)| !v.is_zero()).map(|(k, v)| (*k, *v)).collect();
    transient.sort();
    Proj { accounts, transient, logs: js.logs.clone(), depth: js.depth }
}

fn diff(a: &Proj, b: &Proj) -> (String, String) {
    for ((ad, x), (_, y)) in a.accounts.iter().zip(&b.accounts) {
        let n = aname(ad);
        macro_rules! f {
            ($f:ident) => {
                if x.$f != y.$f {
                    return (stringify!($f).to_string(), format!("{n}.{}: expected {:?}, found {:?}", stringify!($f), x.$f, y.$f));
                }
            };
        }
        f!(balance);
        f!(nonce);
        f!(code_hash);
        f!(touched);
        f!(created);
        f!(destroyed);
        f!(not_existing);
        f!(cold);
        for (sx, sy) in x.slots.iter().zip(&y.slots) {
            if sx.1 != sy.1 {
                return ("slot-present".into(), format!("{n}[{}] present: expected {}, found {}", sx.0, sx.1, sy.1));
            }
            if sx.2 != sy.2 {
                return ("slot-original".into(), format!("{n}[{}] original: expected {}, found {}", sx.0, sx.2, sy.2));
            }
            if sx.3 != sy.3 {
                return ("slot-cold".into(), format!("{n}[{}] cold: expected {}, found {}", sx.0, sx.3, sy.3));
            }
        }
    }
    if a.transient != b.transient {
        return ("transient".into(), format!("transient storage: expected {:?}, found {:?}", a.transient, b.transient));
    }
    if a.logs != b.logs {
        return ("logs".into(), format!("logs: expected {} entries, found {}", a.logs.len(), b.logs.len()));
    }
    if a.depth != b.depth {
        return ("depth".into(), format!("depth: expected {}, found {}", a.depth, b.depth));
    }
    ("none".into(), String::new())
}

impl M {
    fn value(&self, s: &S, v: &V, from: Address) -> U256 {
        match v {
            V::Zero => U256::ZERO,
            V::One => U256::from(1),
            V::Three => U256::from(3),
            V::BalPlus1 => s.js.state.get(&from).map(|a| a.info.balance).unwrap_or_default().saturating_add(U256::from(1)),
            V::Max => U256::MAX,
        }
    }
}

impl Model for M {
    type State = S;
    type Op = Op;
    fn name(&self) -> String {
        format!("journal/{:?}", self.spec)
    }
    fn inits(&self) -> Vec<Vec<Op>> {
        if self.nested {
            return vec![
                // non-initial starts inside nested frames: an outer frame has already written a slot and a
                // transient slot and an inner frame is open (so that "inner writes the same location, commits,
                // outer reverts" is within the depth bound)
                vec![Op::Load(0), Op::LoadCode(1), Op::Checkpoint, Op::Sstore(1, 0, 1), Op::Tstore(1, 0, 1), Op::Checkpoint],
                // an outer frame moved value, an inner frame wrote storage, logged and committed
                vec![Op::Load(0), Op::LoadCode(1), Op::Checkpoint, Op::Transfer(0, 1, V::One), Op::Checkpoint, Op::Sstore(1, 1, 2), Op::Log, Op::Commit],
                // a contract that already self-destructed (to another account) and was funded again, inside an open frame
                vec![Op::Load(0), Op::LoadCode(1), Op::Selfdestruct(1, 0), Op::Transfer(0, 1, V::Three), Op::Checkpoint],
            ];
        }
        vec![
            vec![],
            // non-initial start: caller and contract loaded, as at the start of a call frame
            vec![Op::Load(0), Op::LoadCode(1)],
            // the creation target and one of its slots are named by the access list
            vec![Op::AccessList(2, 1), Op::Load(0)],
        ]
    }
    fn clone_state(&self, s: &S) -> Option<S> {
        Some(s.clone())
    }
    fn fresh(&self) -> S {
        let mut warm = HashSet::default();
        warm.insert(P);
        let mut js = JournaledState::new(self.spec, warm);
        let mut db = base_db();
        // access-list entry (K, slot 0), loaded as pre_execution does
        js.initial_account_load(K, [U256::from(0)], &mut db).unwrap();
        S { js, db, cps: vec![], last: String::new(), prewarmed: vec![(K, 0)] }
    }
    fn enabled(&self, s: &S) -> Vec<Op> {
        let loaded = |i: u8| s.js.state.contains_key(&addr(i));
        let mut v = vec![];
        for i in 0..5u8 {
            v.push(Op::Load(i));
        }
        v.push(Op::LoadCode(1));
        v.push(Op::LoadCode(2));
        for i in [0u8, 1, 2, 4] {
            if loaded(i) {
                v.push(Op::Touch(i));
            }
        }
        for (f, t) in [(0u8, 2u8), (0, 3), (1, 0), (0, 1), (3, 0)] {
            for val in [V::Zero, V::One, V::Three, V::BalPlus1] {
                v.push(Op::Transfer(f, t, val));
            }
        }
        for i in [0u8, 1, 2] {
            if loaded(i) {
                v.push(Op::IncNonce(i));
            }
        }
        if loaded(1) {
            for k in SLOTS {
                v.push(Op::Sload(1, k));
                for val in [0u64, 1, 7] {
                    v.push(Op::Sstore(1, k, val));
                }
            }
            for t in [1u8, 0, 2, 3] {
                if loaded(t) || true {
                    v.push(Op::Selfdestruct(1, t));
                }
            }
        }
        if loaded(2) {
            v.push(Op::Sload(2, 0));
            v.push(Op::Sload(2, 1));
            v.push(Op::Sstore(2, 0, 1));
            if s.js.state[&N].is_created() {
                v.push(Op::SetCode(2));
                v.push(Op::Selfdestruct(2, 0));
            }
        }
        for val in [0u64, 1, 2] {
            v.push(Op::Tstore(1, 0, val));
        }
        v.push(Op::Log);
        if loaded(0) {
            for (t, val) in [(2u8, V::Zero), (2, V::One), (3, V::One), (1, V::Zero)] {
                // before Spurious Dragon a created account keeps nonce 0, and without CREATE2 the EVM can
                // never target the same address twice in one transaction: keep to that calling contract
                let twice = !self.spec.is_enabled_in(SpecId::SPURIOUS_DRAGON) && loaded(t) && s.js.state[&addr(t)].is_created();
                if loaded(t) && !twice && s.js.state[&E].info.balance >= self.value(s, &val, E) && s.cps.len() < 3 {
                    v.push(Op::Create { caller: 0, target: t, value: val });
                }
            }
        }
        if s.cps.len() < 3 {
            v.push(Op::Checkpoint);
        }
        if !s.cps.is_empty() {
            v.push(Op::Commit);
            v.push(Op::Revert);
        }
        v
    }
    fn apply(&self, s: &mut S, op: &Op) -> Result<(), (String, String)> {
        let e = |k: String, m: String| Err((k, m));
        s.last = String::new();
        match op {
            Op::AccessList(i, k) => {
                s.js.initial_account_load(addr(*i), [U256::from(*k)], &mut s.db).unwrap();
                s.prewarmed.push((addr(*i), *k));
            }
            Op::Load(i) => {
                s.js.load_account(addr(*i), &mut s.db).unwrap();
            }
            Op::LoadCode(i) => {
                s.js.load_code(addr(*i), &mut s.db).unwrap();
            }
            Op::Touch(i) => s.js.touch(&addr(*i)),
            Op::Transfer(f, t, v) => {
                // value is resolved against the sender's balance as loaded (transfer loads both)
                s.js.load_account(addr(*f), &mut s.db).unwrap();
                let val = self.value(s, v, addr(*f));
                let r = s.js.transfer(&addr(*f), &addr(*t), val, &mut s.db).unwrap();
                s.last = format!("{r:?}");
            }
            Op::IncNonce(i) => {
                s.js.inc_nonce(addr(*i));
            }
            Op::Sload(i, k) => {
                s.js.sload(addr(*i), U256::from(*k), &mut s.db).unwrap();
            }
            Op::Sstore(i, k, v) => {
                s.js.sstore(addr(*i), U256::from(*k), U256::from(*v), &mut s.db).unwrap();
            }
            Op::Tstore(i, k, v) => s.js.tstore(addr(*i), U256::from(*k), U256::from(*v)),
            Op::Log => s.js.log(Log::new_unchecked(K, vec![B256::with_last_byte(1)], Bytes::from_static(b"x"))),
            Op::Selfdestruct(a, t) => {
                let bal_a = s.js.state[&addr(*a)].info.balance;
                let bal_t = s.js.state.get(&addr(*t)).map(|x| x.info.balance).unwrap_or_else(|| s.db.basic(addr(*t)).unwrap().map(|i| i.balance).unwrap_or_default());
                if a != t && bal_a.checked_add(bal_t).is_none() {
                    // total supply above 2^256: outside any specified behaviour; do not drive it here (C08 covers it)
                    s.last = "skipped-overflow".into();
                    return Ok(());
                }
                s.js.selfdestruct(addr(*a), addr(*t), &mut s.db).unwrap();
            }
            Op::Create { caller, target, value } => {
                let val = self.value(s, value, addr(*caller));
                let has_storage = SLOTS.iter().any(|k| !s.db.storage(addr(*target), U256::from(*k)).unwrap().is_zero());
                let snap = project(&s.js, &mut s.db);
                match s.js.create_account_checkpoint(addr(*caller), addr(*target), has_storage, val, self.spec) {
                    Ok(cp) => s.cps.push((cp, snap)),
                    Err(r) => {
                        s.last = format!("{r:?}");
                        if !matches!(r, InstructionResult::CreateCollision | InstructionResult::OverflowPayment) {
                            return e("create-error-kind".into(), format!("{r:?}"));
                        }
                        let now = project(&s.js, &mut s.db);
                        let (f, msg) = diff(&snap, &now);
                        if f != "none" {
                            return e(format!("failed-create-changed-state:{f}"), msg);
                        }
                    }
                }
            }
            Op::SetCode(i) => s.js.set_code(addr(*i), Bytecode::new_legacy(Bytes::from_static(&[0x5b, 0x00]))),
            Op::Checkpoint => {
                let snap = project(&s.js, &mut s.db);
                let cp = s.js.checkpoint();
                s.cps.push((cp, snap));
            }
            Op::Commit => {
                let (_, snap) = s.cps.pop().unwrap();
                let mut before = project(&s.js, &mut s.db);
                s.js.checkpoint_commit();
                let now = project(&s.js, &mut s.db);
                before.depth -= 1;
                let (f, msg) = diff(&before, &now);
                if f != "none" {
                    return e(format!("commit-changed-state:{f}"), msg);
                }
                if now.depth != snap.depth {
                    return e("commit-depth".into(), format!("depth {} after commit, {} at checkpoint", now.depth, snap.depth));
                }
            }
            Op::Revert => {
                let (cp, snap) = s.cps.pop().unwrap();
                s.js.checkpoint_revert(cp);
                let now = project(&s.js, &mut s.db);
                let (f, msg) = diff(&snap, &now);
                if f != "none" {
                    return e(format!("revert-mismatch:{f}"), msg);
                }
            }
        }
        // tx-level pre-warming is never forgotten
        if let Some(acc) = s.js.state.get(&P) {
            if acc.status.contains(revm::primitives::AccountStatus::Cold) {
                return e("prewarmed-address-cold".into(), "pre-warmed address P became cold".into());
            }
        }
        for (a, k) in &s.prewarmed {
            if let Some(slot) = s.js.state.get(a).and_then(|x| x.storage.get(&U256::from(*k))) {
                if slot.is_cold {
                    return e("prewarmed-slot-cold".into(), format!("access-list slot {}[{k}] became cold", aname(a)));
                }
            }
        }
        Ok(())
    }
    fn canon(&self, s: &S, c: &mut Canon) {
        // full public state: sorted accounts with raw status and storage, journal, transient, logs, depth,
        // and the snapshot stack (it decides the oracle of future reverts)
        let mut accs: Vec<_> = s.js.state.iter().collect();
        accs.sort_by_key(|(a, _)| **a);
        for (a, acc) in accs {
            c.add(a);
            c.add(&acc.info);
            c.add(&acc.info.code.is_some());
            c.add(&acc.status);
            let mut st: Vec<_> = acc.storage.iter().collect();
            st.sort_by_key(|(k, _)| **k);
            c.add(&st);
        }
        let mut t: Vec<_> = s.js.transient_storage.iter().collect();
        t.sort();
        c.add(&t);
        c.add(&s.js.logs.len());
        c.add(&s.js.depth);
        c.add(&s.js.journal);
        for (_, p) in &s.cps {
            c.add(p);
        }
    }
    fn outcome(&self, s: &S, op: &Op) -> String {
        let k = match op {
            Op::Load(_) => "load",
            Op::AccessList(..) => "access_list",
            Op::LoadCode(_) => "load_code",
            Op::Touch(_) => "touch",
            Op::Transfer(..) => "transfer",
            Op::IncNonce(_) => "inc_nonce",
            Op::Sload(..) => "sload",
            Op::Sstore(..) => "sstore",
            Op::Tstore(..) => "tstore",
            Op::Log => "log",
            Op::Selfdestruct(..) => "selfdestruct",
            Op::Create { .. } => "create",
            Op::SetCode(_) => "set_code",
            Op::Checkpoint => "checkpoint",
            Op::Commit => "commit",
            Op::Revert => "revert",
        };
        format!("{k}:{}@{}", s.last, s.cps.len())
    }
}

const SPECS: [SpecId; 4] = [SpecId::FRONTIER, SpecId::SPURIOUS_DRAGON, SpecId::BERLIN, SpecId::CANCUN];

pub fn replay(case: &Value) -> Vec<Violation> {
    let name = case["model"].as_str().unwrap_or("");
    for sp in SPECS {
        let m = M { spec: sp, nested: false };
        if m.name() == name {
            return explore::replay_value(&m, case);
        }
    }
    eprintln!("MACHINERY: unknown model {name}");
    std::process::exit(2)
}

pub fn run(ctx: &Ctx) -> i32 {
    let depth = ctx.tier.pick(4, 5);
    let mut acc = Acc::new();
    for sp in SPECS {
        let a = explore::explore(&M { spec: sp, nested: false }, depth, ctx);
        acc.merge(a);
        // the histories that start inside nested frames are explored one level less deep
        let a = explore::explore(&M { spec: sp, nested: true }, depth - 1, ctx);
        acc.merge(a);
    }
    let meta = Meta {
        rule: "BFS over JournaledState operation histories (4 specs, 6 initial histories incl. three that start inside nested frames), de-duplicated by the full public state + journal + snapshot stack; distinct = distinct (state, op kind, result, nesting)".into(),
        assumptions: vec![
            "operations are issued under the calling contract EvmContext follows (accounts loaded before use, LIFO checkpoints)".into(),
            "address 0x03's surviving touch (consensus quirk) is outside the alphabet".into(),
            "selfdestruct whose beneficiary balance would exceed 2^256-1 is not driven here (see C08)".into(),
        ],
        bounds: json!({"depth": depth, "depth_from_nested_starts": depth - 1, "max_nested_checkpoints": 3, "specs": ["FRONTIER","SPURIOUS_DRAGON","BERLIN","CANCUN"], "world": "5 accounts incl. absent, RICH (2^256-1), tx-pre-warmed address, access-list slot"}),
        min_distinct: 1000,
        exhaustive: true,
        explanation: "reference = snapshot of the observable projection at each checkpoint; compared on every revert/commit".into(),
    };
    finish(ctx, acc, meta, &replay)
}
