//! C11: each call frame sees its own zero-initialised memory.
//! (a) E1 on the real SharedMemory vs one Vec<u8> per context.
//! (b) E2: programs mixing memory writes with nested calls (see c11b in this file).
use crate::explore::{self, Canon, Model};
use crate::fw::*;
use revm::interpreter::SharedMemory;
use serde::{Deserialize, Serialize};
use serde_json::{json, Value};

#[derive(Clone, Debug, Serialize, Deserialize, PartialEq)]
pub enum Op {
    NewContext,
    FreeContext,
    /// grow the current context to `words*32` bytes if that is larger (memory only grows)
    Grow(usize),
    Set(usize, usize),
    SetByte(usize),
    /// set_data(memory_offset, data_offset, len) from a 4-byte source
    SetData(usize, usize, usize),
    Copy(usize, usize, usize),
    SetU256(usize),
}

#[derive(Clone)]
pub struct S {
    real: SharedMemory,
    model: Vec<Vec<u8>>,
    /// what the flat backing buffer holds beyond the logical end (stale bytes), for the canonical key
    flat: Vec<u8>,
}
impl S {
    fn total(&self) -> usize {
        self.model.iter().map(|c| c.len()).sum()
    }
    fn sync_flat(&mut self) {
        let mut off = 0;
        for c in &self.model {
            if self.flat.len() < off + c.len() {
                self.flat.resize(off + c.len(), 0);
            }
            self.flat[off..off + c.len()].copy_from_slice(c);
            off += c.len();
        }
    }
}
pub struct M;
const DATA: [u8; 4] = [0xd1, 0xd2, 0xd3, 0xd4];

impl Model for M {
    type State = S;
    type Op = Op;
    fn name(&self) -> String {
        "shared_memory".into()
    }
    fn inits(&self) -> Vec<Vec<Op>> {
        vec![
            vec![],
            vec![Op::Grow(2), Op::Set(0, 32), Op::Set(32, 32)],
            // a freed child left stale bytes behind the parent
            vec![Op::Grow(1), Op::NewContext, Op::Grow(2), Op::Set(0, 32), Op::Set(32, 32), Op::FreeContext],
        ]
    }
    fn clone_state(&self, s: &S) -> Option<S> {
        Some(s.clone())
    }
    fn fresh(&self) -> S {
        let mut real = SharedMemory::new();
        real.new_context();
        S { real, model: vec![vec![]], flat: vec![] }
    }
    fn enabled(&self, s: &S) -> Vec<Op> {
        let len = s.model.last().unwrap().len();
        let mut v = vec![];
        if s.model.len() < 4 {
            v.push(Op::NewContext);
        }
        if s.model.len() > 1 {
            v.push(Op::FreeContext);
        }
        for w in 1..=3usize {
            if w * 32 > len {
                v.push(Op::Grow(w));
            }
        }
        for (off, l) in [(0usize, 1usize), (0, 32), (31, 2), (32, 32), (64, 32), (0, 0)] {
            if off + l <= len {
                v.push(Op::Set(off, l));
            }
        }
        for off in [0usize, 33, 95] {
            if off < len {
                v.push(Op::SetByte(off));
            }
        }
        for (mo, dof, l) in [(0usize, 0usize, 4usize), (0, 2, 4), (30, 0, 8), (32, 10, 32), (0, 4, 1), (0, 0, 0), (60, 3, 36)] {
            if mo + l <= len {
                v.push(Op::SetData(mo, dof, l));
            }
        }
        for (d, sr, l) in [(0usize, 32usize, 32usize), (32, 0, 32), (1, 0, 40), (0, 1, 40), (64, 0, 32), (0, 0, 0)] {
            if d + l <= len && sr + l <= len {
                v.push(Op::Copy(d, sr, l));
            }
        }
        if 32 <= len {
            v.push(Op::SetU256(0));
        }
        v
    }
    fn apply(&self, s: &mut S, op: &Op) -> Result<(), (String, String)> {
        let e = |k: &str, m: String| Err((k.to_string(), m));
        let parent_before: Option<Vec<u8>> = if s.model.len() >= 2 { Some(s.model[s.model.len() - 2].clone()) } else { None };
        match op {
            Op::NewContext => {
                s.real.new_context();
                s.model.push(vec![]);
                if s.real.len() != 0 || !s.real.context_memory().is_empty() {
                    return e("child-not-empty", format!("new context has length {}", s.real.len()));
                }
            }
            Op::FreeContext => {
                s.real.free_context();
                s.model.pop();
                let top = s.model.last().unwrap();
                if s.real.context_memory() != &top[..] {
                    return e("parent-changed-after-free", format!("parent memory after free differs (len {} vs {})", s.real.len(), top.len()));
                }
                let _ = parent_before;
            }
            Op::Grow(w) => {
                let n = w * 32;
                let top = s.model.last_mut().unwrap();
                if n > top.len() {
                    let old = top.len();
                    s.real.resize(n);
                    top.resize(n, 0);
                    if s.real.context_memory()[old..].iter().any(|b| *b != 0) {
                        return e("growth-not-zero", format!("bytes {old}..{n} of the grown context are not zero"));
                    }
                }
            }
            Op::Set(off, l) => {
                let val: Vec<u8> = (0..*l).map(|i| 0xa0 | (i as u8 & 0xf)).collect();
                s.real.set(*off, &val);
                s.model.last_mut().unwrap()[*off..off + l].copy_from_slice(&val);
            }
            Op::SetByte(off) => {
                s.real.set_byte(*off, 0xb7);
                s.model.last_mut().unwrap()[*off] = 0xb7;
            }
            Op::SetU256(off) => {
                let v = revm::primitives::U256::from(0xc1c2c3c4u64);
                s.real.set_u256(*off, v);
                s.model.last_mut().unwrap()[*off..off + 32].copy_from_slice(&v.to_be_bytes::<32>());
            }
            Op::SetData(mo, dof, l) => {
                s.real.set_data(*mo, *dof, *l, &DATA);
                let top = s.model.last_mut().unwrap();
                for i in 0..*l {
                    top[mo + i] = DATA.get(dof + i).copied().unwrap_or(0);
                }
            }
            Op::Copy(d, sr, l) => {
                s.real.copy(*d, *sr, *l);
                let top = s.model.last_mut().unwrap();
                let tmp = top[*sr..sr + l].to_vec();
                top[*d..d + l].copy_from_slice(&tmp);
            }
        }
        let top = s.model.last().unwrap();
        if s.real.len() != top.len() {
            return e("len-mismatch", format!("len() = {}, model {}", s.real.len(), top.len()));
        }
        if s.real.context_memory() != &top[..] {
            let i = s.real.context_memory().iter().zip(top.iter()).position(|(a, b)| a != b);
            return e("content-mismatch", format!("context memory differs from the per-context model at byte {i:?}"));
        }
        if top.len() % 32 != 0 {
            return e("not-word-aligned", format!("len {}", top.len()));
        }
        if !top.is_empty() && s.real.get_byte(top.len() - 1) != top[top.len() - 1] {
            return e("get_byte".into(), "last byte".into());
        }
        if top.len() >= 32 && s.real.get_word(0).as_slice() != &top[..32] {
            return e("get_word".into(), "first word".into());
        }
        s.sync_flat();
        Ok(())
    }
    fn canon(&self, s: &S, c: &mut Canon) {
        c.add(&s.model);
        c.add(&s.flat[s.total().min(s.flat.len())..]);
    }
    fn outcome(&self, s: &S, op: &Op) -> String {
        let k = match op {
            Op::NewContext => "new_context",
            Op::FreeContext => "free_context",
            Op::Grow(_) => "resize",
            Op::Set(..) => "set",
            Op::SetByte(_) => "set_byte",
            Op::SetData(..) => "set_data",
            Op::Copy(..) => "copy",
            Op::SetU256(_) => "set_u256",
        };
        format!("{k}@depth{}", s.model.len())
    }
}

pub fn replay(case: &Value) -> Vec<Violation> {
    if case.get("history").is_some() {
        explore::replay_value(&M, case)
    } else {
        crate::props::c11b::replay(case)
    }
}

pub fn run(ctx: &Ctx) -> i32 {
    let depth = ctx.tier.pick(7, 8);
    let mut acc = explore::explore(&M, depth, ctx);
    let b = crate::props::c11b::run_b(ctx);
    acc.merge(b);
    let meta = Meta {
        rule: "(a) BFS over SharedMemory histories (<= 4 nested contexts, <= 96 bytes each) from 3 initial histories, de-duplicated by per-context contents plus stale bytes in the backing buffer; (b) every macro program of depth <= 3 (quick) / <= 4 (thorough) over a 26-macro memory alphabet (MSTORE at 0 / 480 / 704 / 16384, MSTORE8, MLOAD of used and fresh memory, MSIZE, MCOPY, KECCAK256, calls with return windows that overlap / abut / exceed the caller's memory to contracts returning 32 or 64 bytes, a code-less account, the identity precompile, a child that itself writes memory and calls frame-less targets, reverting and halting callees, CREATE, RETURN) on FRONTIER, BYZANTIUM, CANCUN with the step monitor recording memory around every call; distinct = distinct (state, op kind, nesting) and distinct program outcomes".into(),
        assumptions: vec!["memory is only grown (resize to a smaller size is never issued by the interpreter)".into(), "all accesses are inside the current length, as the interpreter guarantees by resizing first".into()],
        bounds: json!({"depth": depth, "max_contexts": 4, "max_context_bytes": 96}),
        min_distinct: 200,
        exhaustive: true,
        explanation: "(a) reference = Vec<Vec<u8>>, compared after every operation; (b) per instruction: size multiple of 32 and monotone, fresh frames start empty, expansion charged by the quadratic formula, fresh memory reads zero, caller memory unchanged across a call outside the return window".into(),
    };
    finish(ctx, acc, meta, &replay)
}
