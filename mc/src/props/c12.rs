//! C12: the EVM stack is a bounded LIFO of 1024 words — E1 on the real `Stack` vs `Vec<U256>`.
use crate::explore::{self, Canon, Model};
use crate::fw::*;
use rayon::prelude::*;
use revm::interpreter::{InstructionResult, Stack, STACK_LIMIT};
use revm::primitives::U256;
use serde::{Deserialize, Serialize};
use serde_json::{json, Value};

#[derive(Clone, Debug, Serialize, Deserialize, PartialEq)]
pub enum Op {
    /// push n distinct non-zero words (initial histories only)
    Fill(usize),
    Push(u8),
    Pop,
    Peek(usize),
    Set(usize, u8),
    Dup(usize),
    Swap(usize),
    Exchange(usize, usize),
    PushSlice(usize),
}

pub fn val(i: u8) -> U256 {
    match i {
        0 => U256::ZERO,
        1 => U256::from(1),
        2 => U256::MAX,
        _ => U256::from(0xabcdef00u64 + i as u64) << 200,
    }
}
pub fn pattern(len: usize) -> Vec<u8> {
    (0..len).map(|i| ((i * 7 + 1) % 251 + 1) as u8).collect()
}
pub fn ref_push_slice(r: &mut Vec<U256>, s: &[u8]) -> Result<(), InstructionResult> {
    let n = (s.len() + 31) / 32;
    if r.len() + n > STACK_LIMIT {
        return Err(InstructionResult::StackOverflow);
    }
    for ch in s.chunks(32) {
        // big-endian word; a short last chunk supplies the low-order bytes (PUSHn semantics)
        let mut w = [0u8; 32];
        w[32 - ch.len()..].copy_from_slice(ch);
        r.push(U256::from_be_bytes(w));
    }
    Ok(())
}

pub struct S {
    real: Stack,
    model: Vec<U256>,
}
pub struct M;
impl M {
    fn fresh_stack() -> Stack {
        // leave stale all-ones words in the whole buffer so that missing zero-fill is visible
        let mut s = Stack::new();
        for _ in 0..STACK_LIMIT {
            s.push(U256::MAX).unwrap();
        }
        for _ in 0..STACK_LIMIT {
            s.pop().unwrap();
        }
        s
    }
}
impl Model for M {
    type State = S;
    type Op = Op;
    fn name(&self) -> String {
        "stack".into()
    }
    fn inits(&self) -> Vec<Vec<Op>> {
        [0usize, 1, 2, 15, 16, 17, 1022, 1023, 1024]
            .iter()
            .map(|n| vec![Op::Fill(*n)])
            .collect()
    }
    fn fresh(&self) -> S {
        S {
            real: Self::fresh_stack(),
            model: vec![],
        }
    }
    fn enabled(&self, s: &S) -> Vec<Op> {
        let len = s.model.len();
        let mut v = vec![Op::Pop, Op::Push(0), Op::Push(2), Op::Push(7)];
        for i in [0, 1, 16, len.wrapping_sub(1), len] {
            if i < usize::MAX {
                v.push(Op::Peek(i));
            }
        }
        for i in [0, 1, len.wrapping_sub(1), len] {
            if i < usize::MAX {
                v.push(Op::Set(i, 1));
            }
        }
        for n in [1usize, 2, 15, 16, 17, 255, 256, 1023, 1024, 1025] {
            v.push(Op::Dup(n));
        }
        for n in [1usize, 2, 15, 16, 17, 256, 1023, 1024] {
            v.push(Op::Swap(n));
        }
        for (n, m) in [(0, 1), (1, 1), (1, 2), (2, 15), (15, 1), (16, 16), (0, 1023), (1, 1023), (1023, 1)] {
            v.push(Op::Exchange(n, m));
        }
        for l in [0usize, 1, 8, 9, 31, 32, 33, 64, 65] {
            v.push(Op::PushSlice(l));
        }
        v
    }
    fn apply(&self, s: &mut S, op: &Op) -> Result<(), (String, String)> {
        use InstructionResult::*;
        let before = s.model.clone();
        let (r, e): (Result<Option<U256>, InstructionResult>, Result<Option<U256>, InstructionResult>) = match op {
            Op::Fill(n) => {
                for i in 0..*n {
                    let w = U256::from(i + 1) | (U256::from(0x5a) << 248);
                    s.real.push(w).map_err(|e| ("fill".to_string(), format!("{e:?}")))?;
                    s.model.push(w);
                }
                (Ok(None), Ok(None))
            }
            Op::Push(i) => (
                s.real.push(val(*i)).map(|_| None),
                if s.model.len() >= STACK_LIMIT {
                    Err(StackOverflow)
                } else {
                    s.model.push(val(*i));
                    Ok(None)
                },
            ),
            Op::Pop => (s.real.pop().map(Some), s.model.pop().map(Some).ok_or(StackUnderflow)),
            Op::Peek(i) => (
                s.real.peek(*i).map(Some),
                if *i < s.model.len() {
                    Ok(Some(s.model[s.model.len() - 1 - i]))
                } else {
                    Err(StackUnderflow)
                },
            ),
            Op::Set(i, v) => (
                s.real.set(*i, val(*v)).map(|_| None),
                if *i < s.model.len() {
                    let l = s.model.len();
                    s.model[l - 1 - i] = val(*v);
                    Ok(None)
                } else {
                    Err(StackUnderflow)
                },
            ),
            Op::Dup(n) => (
                s.real.dup(*n).map(|_| None),
                if s.model.len() < *n {
                    Err(StackUnderflow)
                } else if s.model.len() >= STACK_LIMIT {
                    Err(StackOverflow)
                } else {
                    let w = s.model[s.model.len() - n];
                    s.model.push(w);
                    Ok(None)
                },
            ),
            Op::Swap(n) => (
                s.real.swap(*n).map(|_| None),
                if s.model.len() <= *n {
                    Err(StackUnderflow)
                } else {
                    let l = s.model.len();
                    s.model.swap(l - 1, l - 1 - n);
                    Ok(None)
                },
            ),
            Op::Exchange(n, m) => (
                s.real.exchange(*n, *m).map(|_| None),
                if s.model.len() <= n + m {
                    Err(StackUnderflow)
                } else {
                    let l = s.model.len();
                    s.model.swap(l - 1 - n, l - 1 - n - m);
                    Ok(None)
                },
            ),
            Op::PushSlice(l) => {
                let p = pattern(*l);
                (s.real.push_slice(&p).map(|_| None), ref_push_slice(&mut s.model, &p).map(|_| None))
            }
        };
        if r != e {
            // Dup on a full stack with too few... both error kinds are defined; the class must match
            return Err(("result-mismatch".into(), format!("real returned {r:?}, LIFO model {e:?}")));
        }
        if s.real.data() != &s.model {
            let idx = s.real.data().iter().zip(&s.model).position(|(a, b)| a != b);
            return Err((
                "data-mismatch".into(),
                format!(
                    "stack contents differ: real len {} model len {} first differing index {:?}",
                    s.real.len(),
                    s.model.len(),
                    idx
                ),
            ));
        }
        if e.is_err() && s.model != before {
            return Err(("model-bug".into(), "model changed on failure".into()));
        }
        if s.real.len() > STACK_LIMIT {
            return Err(("over-limit".into(), format!("len {}", s.real.len())));
        }
        Ok(())
    }
    fn canon(&self, s: &S, c: &mut Canon) {
        c.add(&s.model);
    }
    fn outcome(&self, s: &S, op: &Op) -> String {
        let k = match op {
            Op::Fill(_) => "fill",
            Op::Push(_) => "push",
            Op::Pop => "pop",
            Op::Peek(_) => "peek",
            Op::Set(..) => "set",
            Op::Dup(_) => "dup",
            Op::Swap(_) => "swap",
            Op::Exchange(..) => "exchange",
            Op::PushSlice(_) => "push_slice",
        };
        format!("{k}@{}", match s.model.len() { 0 => "empty", 1024 => "full", _ => "mid" })
    }
}

/// Complete side enumeration: push_slice of every length from every initial size.
fn slice_sweep(max_len: usize, sizes: &[usize]) -> Acc {
    let cases: Vec<(usize, usize)> = sizes.iter().flat_map(|s| (0..=max_len).map(move |l| (*s, l))).collect();
    let accs: Vec<Acc> = cases
        .par_chunks(512)
        .map(|ch| {
            let mut a = Acc::new();
            for (size, len) in ch {
                a.evaluations += 1;
                a.transitions += 1;
                for v in slice_case(*size, *len) {
                    a.violation(v);
                }
                let n = (len + 31) / 32;
                a.distinct(&(size + n > STACK_LIMIT, len % 32, (*size).min(2)));
                a.outcome(if size + n > STACK_LIMIT { "slice-overflow" } else { "slice-ok" });
            }
            a
        })
        .collect();
    merge_all(accs)
}
fn slice_case(size: usize, len: usize) -> Vec<Violation> {
    let m = M;
    let hist = vec![Op::Fill(size), Op::PushSlice(len)];
    explore::replay_history(&m, &hist)
}

pub fn replay(case: &Value) -> Vec<Violation> {
    explore::replay_value(&M, case)
}

pub fn run(ctx: &Ctx) -> i32 {
    let depth = ctx.tier.pick(4, 5);
    let mut acc = explore::explore(&M, depth, ctx);
    let sizes: Vec<usize> = vec![0, 1, 2, 15, 16, 17, 1000, 1022, 1023, 1024];
    let max_len = 1024 * 32 + 33;
    let sw = slice_sweep(max_len, ctx.tier.pick(&sizes[..2], &sizes[..]));
    let sw2 = slice_sweep(ctx.tier.pick(100, 0), &sizes[2..]);
    acc.merge(sw);
    acc.merge(sw2);
    acc.sample(|| json!({"model":"stack","history":[{"Fill":1023},{"PushSlice":33}]}));
    let meta = Meta {
        rule: "BFS over histories of real Stack operations from 9 initial sizes, de-duplicated by full stack contents; \
               distinct = distinct (canonical state, operation kind, size class) reached; plus every push_slice length"
            .into(),
        assumptions: vec![
            "dup(0)/exchange(_,0) are outside the documented contract (assume!) and not in the alphabet".into(),
            "a partial last word of push_slice supplies the low-order bytes (PUSHn semantics, as the repository's own push_slices test fixes)".into(),
        ],
        bounds: json!({"depth": depth, "initial_sizes":[0,1,2,15,16,17,1022,1023,1024], "push_slice_lengths": format!("0..={max_len}")}),
        min_distinct: 100,
        exhaustive: true,
        explanation: "every operation sequence up to the depth bound over the stated alphabet, real Stack vs Vec model compared after every operation".into(),
    };
    finish(ctx, acc, meta, &replay)
}
