//! C34: cold and warm access is charged exactly per the access rules — E2 + explicit access-set model.
use crate::asm::{op, Asm};
use crate::exec::*;
use crate::fw::*;
use crate::gen::{addr_name, alphabet_for};
use crate::macros::*;
use crate::monitor::{MEv, Mon};
use crate::world::*;
use rayon::prelude::*;
use revm::interpreter::InstructionResult;
use revm::primitives::{address, keccak256, Address, SpecId, B256, U256};
use serde_json::{json, Value};
use std::collections::BTreeSet;

pub const XRET: Address = address!("b0000000000000000000000000000000000000d1"); // BALANCE(EMPTY); SLOAD(0); STOP
pub const XREV: Address = address!("b0000000000000000000000000000000000000d2"); // BALANCE(EMPTY); SLOAD(0); REVERT
pub const XREVP: Address = address!("b0000000000000000000000000000000000000d3"); // BALANCE(precompile 4); BALANCE(COINBASE); REVERT
pub const STALE: Address = address!("25a219378dad9b3503c8268c9ca836a52427a4fb"); // devnet-era history storage address
pub const DELEG: Address = address!("7702000000000000000000000000000000000001"); // pre-existing delegation to BWRITE

fn xcode(revert: bool) -> Vec<u8> {
    let a = Asm::new().push_addr(EMPTY).op(op::BALANCE).op(op::POP).push_u(0).op(op::SLOAD).op(op::POP);
    if revert {
        a.push_u(0).push_u(0).op(op::REVERT).build()
    } else {
        a.op(op::STOP).build()
    }
}
/// first touches the addresses that are warm without ever having been loaded, then reverts
fn xcode_prewarmed() -> Vec<u8> {
    Asm::new().push_addr(ID).op(op::BALANCE).op(op::POP).push_addr(COINBASE).op(op::BALANCE).op(op::POP).push_u(0).push_u(0).op(op::REVERT).build()
}
pub fn create2_target(init: Init, salt: u64) -> Address {
    A.create2(U256::from(salt).to_be_bytes::<32>(), keccak256(init.code()))
}

fn alphabet() -> Vec<Mac> {
    use CallKind::*;
    let c0 = |kind, to| Mac::Call { kind, to, value: 0, gas: 0, out_len: 0 };
    let cg = |kind, to| Mac::Call { kind, to, value: 0, gas: 60_000, out_len: 0 };
    vec![
        Mac::Sload(0),
        Mac::Sload(1),
        Mac::Sstore(0, 0),
        Mac::Sstore(1, 5),
        Mac::Balance(BOK),
        Mac::Balance(EMPTY),
        Mac::Balance(COINBASE),
        Mac::Balance(STALE),
        Mac::Balance(ID),
        Mac::Balance(AUTH),
        Mac::Balance(SENDER),
        Mac::Balance(A),
        Mac::ExtCodeSize(BOK),
        Mac::ExtCodeHash(EMPTY),
        Mac::ExtCodeCopy(BOK),
        Mac::ExtCodeSize(DELEG),
        c0(Call, BOK),
        c0(CallCode, EMPTY),
        c0(DelegateCall, BOK),
        c0(StaticCall, EMPTY),
        c0(Call, AUTH),
        c0(Call, DELEG),
        c0(Call, ID),
        cg(Call, XRET),
        cg(Call, XREV),
        cg(DelegateCall, XREV),
        cg(DelegateCall, XRET),
        cg(StaticCall, XREV),
        cg(Call, XREVP),
        Mac::Create2 { init: Init::SloadRevert, value: 0, salt: 9 },
        Mac::Create2 { init: Init::SloadOk, value: 0, salt: 8 },
        Mac::SelfDestruct(BOK),
        Mac::SelfDestruct(XRET),
    ]
}

#[derive(Clone, Copy, Debug, PartialEq, Eq, Hash)]
pub enum Al {
    None,
    Bok,
    ASlot0,
    TargetSlot0,
    EmptyAndXret,
    /// the executing contract is the block's coinbase and the access list names two of its slots
    CoinbaseIsASlots,
}
pub fn build_case(spec: SpecId, al: Al, with_auth: bool, code: &[u8]) -> TxCase {
    let mut w = std_world();
    w.insert(A, PlainAcc::contract(code).with_storage(1, 5));
    w.insert(XRET, PlainAcc::contract(&xcode(false)).with_balance(U256::from(1)));
    w.insert(XREV, PlainAcc::contract(&xcode(true)).with_balance(U256::from(1)));
    w.insert(XREVP, PlainAcc::contract(&xcode_prewarmed()).with_balance(U256::from(1)));
    let mut d = vec![0xef, 0x01, 0x00];
    d.extend_from_slice(BWRITE.as_slice());
    w.insert(DELEG, PlainAcc { nonce: 1, code: d.into(), ..Default::default() });
    w.insert(AUTH, PlainAcc::eoa(100));
    let mut c = TxCase::new(spec, w);
    c.tx.gas_limit = 3_000_000;
    let t = create2_target(Init::SloadRevert, 9);
    c.tx.access_list = match al {
        Al::None => vec![],
        Al::Bok => vec![(BOK, vec![])],
        Al::ASlot0 => vec![(A, vec![U256::ZERO])],
        Al::TargetSlot0 => vec![(t, vec![U256::ZERO])],
        Al::EmptyAndXret => vec![(EMPTY, vec![U256::from(3)]), (XRET, vec![U256::ZERO]), (XREV, vec![])],
        Al::CoinbaseIsASlots => {
            c.block.coinbase = A;
            vec![(A, vec![U256::ZERO, U256::from(1)]), (revm::precompile::u64_to_address(4), vec![U256::ZERO])]
        }
    };
    if with_auth {
        c.tx.auth_list = Some(vec![AuthSpec { chain_id: 1, address: BOK, nonce: 0, authority: Some(AUTH) }]);
    }
    c
}

#[derive(Clone)]
struct Sets {
    addrs: BTreeSet<Address>,
    slots: BTreeSet<(Address, U256)>,
}

fn precompile_addrs(spec: SpecId) -> Vec<Address> {
    let n: u64 = if spec.is_enabled_in(SpecId::PRAGUE) {
        0x11
    } else if spec.is_enabled_in(SpecId::CANCUN) {
        0x0a
    } else {
        9
    };
    (1..=n).map(revm::precompile::u64_to_address).collect()
}

fn word_addr(w: &U256) -> Address {
    Address::from_word(B256::from(w.to_be_bytes::<32>()))
}

pub fn check_case(case: &TxCase) -> (Vec<(String, String)>, u64, u64, String) {
    let (o, mon, _) = exec_monitored_cfg(case, Mon::new(true));
    let mut v = vec![];
    if !matches!(o.class, Class::Success | Class::Revert | Class::Halt) {
        v.push(("driver-failed".into(), format!("{:?} {}", o.class, o.reason)));
        return (v, 0, 0, String::new());
    }
    let spec = case.spec();
    // ---- the access rules, stated as a model ----
    let mut cur = Sets { addrs: BTreeSet::new(), slots: BTreeSet::new() };
    cur.addrs.insert(case.tx.caller);
    if let Some(t) = case.tx.to {
        cur.addrs.insert(t);
    }
    for p in precompile_addrs(spec) {
        cur.addrs.insert(p);
    }
    for (a, ks) in &case.tx.access_list {
        cur.addrs.insert(*a);
        for k in ks {
            cur.slots.insert((*a, *k));
        }
    }
    if spec.is_enabled_in(SpecId::SHANGHAI) {
        cur.addrs.insert(case.block.coinbase);
    }
    // delegations known at execution time: pre-existing designators and this transaction's valid authorizations
    let mut deleg: Vec<(Address, Address)> = vec![];
    for (a, acc) in &case.world {
        if acc.code.len() == 23 && acc.code.starts_with(&[0xef, 0x01, 0x00]) {
            deleg.push((*a, Address::from_slice(&acc.code[3..])));
        }
    }
    if spec.is_enabled_in(SpecId::PRAGUE) {
        for au in case.tx.auth_list.iter().flatten() {
            if let Some(x) = au.authority {
                cur.addrs.insert(x);
                deleg.push((x, au.address));
            }
        }
        // the transaction's own destination resolves its delegation without charge
        if let Some(t) = case.tx.to {
            if let Some((_, d)) = deleg.iter().find(|(x, _)| *x == t) {
                cur.addrs.insert(*d);
            }
        }
    }
    let mut stack: Vec<Sets> = vec![];
    let mut cold_n = 0u64;
    let mut warm_n = 0u64;
    let mut sig = String::new();
    let evs = &mon.events;
    let mut first_frame = true;
    let mut pre_prague_designator = false;
    let mut i = 0;
    while i < evs.len() {
        match &evs[i] {
            MEv::FrameStart(idx) => {
                let att = &mon.attempts[*idx];
                if !first_frame && att.kind != crate::monitor::FrameKind::Call {
                    // the created address is accessed by the creating frame, before the new frame's snapshot
                    cur.addrs.insert(att.code_address);
                }
                first_frame = false;
                stack.push(cur.clone());
            }
            MEv::FrameEnd(idx) => {
                let snap = stack.pop();
                let ok = matches!(mon.attempts[*idx].result, Some(InstructionResult::Stop | InstructionResult::Return | InstructionResult::SelfDestruct | InstructionResult::ReturnContract));
                if !ok {
                    if let Some(s) = snap {
                        cur = s;
                    }
                }
            }
            MEv::Immediate(_) => {}
            MEv::Step(si) => {
                let s = &mon.steps[*si];
                let charged = s.gas_before.saturating_sub(s.gas_after);
                // only instructions that got as far as charging are classified
                let completed = !matches!(
                    s.result,
                    InstructionResult::StackUnderflow | InstructionResult::StackOverflow | InstructionResult::OutOfGas | InstructionResult::MemoryOOG | InstructionResult::StateChangeDuringStaticCall | InstructionResult::CallNotAllowedInsideStatic | InstructionResult::InvalidOperandOOG | InstructionResult::MemoryLimitOOG | InstructionResult::PrecompileOOG
                );
                let mut expect: Option<(u64, String)> = None;
                let acc_addr = |cur: &mut Sets, a: Address| -> bool {
                    let cold = !cur.addrs.contains(&a);
                    cur.addrs.insert(a);
                    cold
                };
                if completed {
                    match s.op {
                        0x54 if s.stack_len_before >= 1 => {
                            let key = (s.address, s.stack[0]);
                            let cold = !cur.slots.contains(&key);
                            cur.slots.insert(key);
                            expect = Some((if cold { 2100 } else { 100 }, format!("SLOAD {}[{}] {}", addr_name(s.address), s.stack[0], if cold { "cold" } else { "warm" })));
                            if cold { cold_n += 1 } else { warm_n += 1 }
                        }
                        0x55 if s.stack_len_before >= 2 && !s.is_static => {
                            let key = (s.address, s.stack[0]);
                            let cold = !cur.slots.contains(&key);
                            cur.slots.insert(key);
                            // alphabet only writes the value already present: 100 (+2100 when cold)
                            expect = Some((if cold { 2200 } else { 100 }, format!("SSTORE(no change) {}[{}] {}", addr_name(s.address), s.stack[0], if cold { "cold" } else { "warm" })));
                            if cold { cold_n += 1 } else { warm_n += 1 }
                        }
                        0x31 | 0x3b | 0x3f if s.stack_len_before >= 1 => {
                            let a = word_addr(&s.stack[0]);
                            let cold = acc_addr(&mut cur, a);
                            expect = Some((if cold { 2600 } else { 100 }, format!("opcode 0x{:02x} on {} {}", s.op, addr_name(a), if cold { "cold" } else { "warm" })));
                            if cold { cold_n += 1 } else { warm_n += 1 }
                        }
                        0x3c if s.stack_len_before >= 4 => {
                            let a = word_addr(&s.stack[0]);
                            let cold = acc_addr(&mut cur, a);
                            expect = Some((if cold { 2600 } else { 100 }, format!("EXTCODECOPY {} {}", addr_name(a), if cold { "cold" } else { "warm" })));
                            if cold { cold_n += 1 } else { warm_n += 1 }
                        }
                        0xff if s.stack_len_before >= 1 && !s.is_static => {
                            let a = word_addr(&s.stack[0]);
                            let cold = acc_addr(&mut cur, a);
                            // alphabet: contract balance is zero, so no account-creation surcharge
                            expect = Some((5000 + if cold { 2600 } else { 0 }, format!("SELFDESTRUCT to {} {}", addr_name(a), if cold { "cold" } else { "warm" })));
                            if cold { cold_n += 1 } else { warm_n += 1 }
                        }
                        0xf1 | 0xf2 | 0xf4 | 0xfa => {
                            let need = if matches!(s.op, 0xf1 | 0xf2) { 7 } else { 6 };
                            if s.stack_len_before >= need && s.result == InstructionResult::CallOrCreate {
                                let a = word_addr(&s.stack[1]);
                                let cold = acc_addr(&mut cur, a);
                                if !spec.is_enabled_in(SpecId::PRAGUE) && deleg.iter().any(|(x, _)| *x == a) {
                                    pre_prague_designator = true;
                                }
                                let mut e = if cold { 2600 } else { 100 };
                                let mut d = format!("CALL-family 0x{:02x} to {} {}", s.op, addr_name(a), if cold { "cold" } else { "warm" });
                                if spec.is_enabled_in(SpecId::PRAGUE) {
                                    if let Some((_, t)) = deleg.iter().find(|(x, _)| *x == a) {
                                        let dc = acc_addr(&mut cur, *t);
                                        e += if dc { 2600 } else { 100 };
                                        d += &format!(" + delegation target {} {}", addr_name(*t), if dc { "cold" } else { "warm" });
                                    }
                                }
                                if cold { cold_n += 1 } else { warm_n += 1 }
                                // forwarded gas = gas limit of the attempt that follows this step
                                let fwd = evs[i + 1..].iter().find_map(|e| match e {
                                    MEv::FrameStart(k) | MEv::Immediate(k) => Some(mon.attempts[*k].gas_limit),
                                    MEv::Step(_) => Some(u64::MAX),
                                    _ => None,
                                });
                                match fwd {
                                    Some(g) if g != u64::MAX => expect = Some((e + g, d + &format!(" (+{g} forwarded)"))),
                                    _ => {}
                                }
                            }
                        }
                        _ => {}
                    }
                }
                if let Some((e, d)) = expect {
                    sig.push(if d.contains("cold") { 'c' } else { 'w' });
                    if charged != e {
                        let kind = if charged > e { "charged-cold-but-warm" } else { "charged-warm-but-cold" };
                        let key = if pre_prague_designator && s.op != 0x54 && s.op != 0x55 { "pre-prague-designator-treated-as-delegation".to_string() } else { format!("{kind}:0x{:02x}", s.op) };
                        v.push((
                            key,
                            format!("{d}: access rules give {e} gas, the instruction at pc {} of {} (depth {}) charged {charged}", s.pc, addr_name(s.address), s.depth),
                        ));
                        break;
                    }
                }
            }
        }
        i += 1;
    }
    (v, cold_n, warm_n, sig)
}

pub fn replay(case: &Value) -> Vec<Violation> {
    let c: TxCase = serde_json::from_value(case["case"].clone()).unwrap();
    check_case(&c).0.into_iter().map(|(k, m)| Violation { key: k, msg: m, case: case.clone() }).collect()
}

pub fn run(ctx: &Ctx) -> i32 {
    let depth = ctx.tier.pick(3, 4);
    let specs = [SpecId::BERLIN, SpecId::LONDON, SpecId::SHANGHAI, SpecId::CANCUN, SpecId::PRAGUE];
    let mut jobs = vec![];
    for s in specs {
        let a = alphabet_for(s, &alphabet());
        for seq in sequences(&a, depth) {
            jobs.push((s, seq));
        }
    }
    let rot = (ctx.seed as usize) % jobs.len().max(1);
    jobs.rotate_left(rot);
    let als = [Al::None, Al::Bok, Al::ASlot0, Al::TargetSlot0, Al::EmptyAndXret, Al::CoinbaseIsASlots];
    let accs: Vec<Acc> = jobs
        .par_chunks(32)
        .map(|ch| {
            let mut a = Acc::new();
            for (s, seq) in ch {
                if ctx.over_budget() {
                    a.capped = true;
                    break;
                }
                let code = assemble(seq);
                for al in als {
                    for auth in [false, true] {
                        if auth && !s.is_enabled_in(SpecId::PRAGUE) {
                            continue;
                        }
                        // quick tier: access-list variants only for programs of depth <= 2
                        if ctx.tier == Tier::Quick && seq.len() > 2 && !(al == Al::None || al == Al::TargetSlot0) {
                            continue;
                        }
                        let case = build_case(*s, al, auth, &code);
                        let (v, c, w, sig) = check_case(&case);
                        a.evaluations += 1;
                        a.states += 1;
                        a.transitions += c + w;
                        a.bump("cold_accesses", c);
                        a.bump("warm_accesses", w);
                        a.distinct(&(s, al, auth, &sig));
                        a.outcome(&format!("cold={} warm={}", c.min(4), w.min(4)));
                        if a.samples.is_empty() && c > 1 && w > 0 {
                            a.sample(|| json!({"spec": spec_name(*s), "access_list": format!("{al:?}"), "authorization": auth, "program": format!("{seq:?}"), "cold_warm_sequence": sig}));
                        }
                        for (k, m) in v {
                            a.violation(Violation { key: k, msg: format!("{s:?} {al:?} auth={auth} {seq:?}: {m}"), case: json!({"program": format!("{seq:?}"), "case": case}) });
                        }
                    }
                }
            }
            a
        })
        .collect();
    let acc = merge_all(accs);
    let meta = Meta {
        rule: format!("every macro program of depth <= {depth} over a 33-macro access alphabet (SLOAD/SSTORE of 2 slots, BALANCE/EXTCODE* of 10 addresses incl. coinbase, precompile, authority, delegated account, the devnet history address; 0-gas calls of all four kinds; calls and delegate calls to contracts that access and then return or revert, one of them touching a precompile and the coinbase before reverting; CREATE2 of reverting / succeeding init code that reads slot 0; SELFDESTRUCT) x 6 access lists (incl. one naming slots of the coinbase, which is the executing contract) x with/without an EIP-7702 authorization on BERLIN, LONDON, SHANGHAI, CANCUN, PRAGUE; distinct = distinct (spec, access list, authorization, cold/warm sequence)"),
        assumptions: vec![
            "cold/warm is read off the gas each access instruction charged (forwarded call gas subtracted using the child frame's gas limit), never from a revm flag".into(),
            "model = EIP-2929/2930/3651/7702 accessed sets, snapshotted at every frame entry and restored when that frame does not end successfully; the created address is accessed by the creating frame".into(),
        ],
        bounds: json!({"depth": depth, "access_lists": 6, "specs": 5}),
        min_distinct: 300,
        exhaustive: true,
        explanation: "explicit access-set model vs gas charged per access".into(),
    };
    finish(ctx, acc, meta, &replay)
}
