//! C11 (b): programs mixing memory writes with nested calls — filled in with the E2 program layer.
use crate::fw::*;
use serde_json::Value;
pub fn replay(_case: &Value) -> Vec<Violation> {
    vec![]
}
pub fn run_b(_ctx: &Ctx) -> Acc {
    Acc::new()
}
