//! C11 (b): programs mixing memory writes with nested calls — E2 with the step monitor recording
//! memory contents around every call.
//!
//! Oracle per executed instruction: memory length is a multiple of 32 and never shrinks inside a frame;
//! a fresh frame starts with length 0; an expansion is charged exactly the difference of the quadratic
//! formula (for the pure memory instructions the whole charge is checked); MLOAD of memory that was
//! never written reads zero; after a call / create resolves — with or without a child frame — the
//! caller's memory is byte-for-byte what it was when the instruction handed over, except inside the
//! return window, and its length is unchanged.
use crate::asm::{op, Asm};
use crate::exec::*;
use crate::fw::*;
use crate::macros::*;
use crate::monitor::{MEv, Mon};
use crate::world::*;
use rayon::prelude::*;
use revm::primitives::{address, Address, SpecId, U256};
use serde_json::{json, Value};

pub const MEMCHILD: Address = address!("b0000000000000000000000000000000000000d7");
/// writes its own memory, calls a code-less account and the identity precompile with return windows,
/// then returns MSIZE and a word of its memory
fn memchild_code() -> Vec<u8> {
    let a = Asm::new().push_u(0xaabb).push_u(0).op(op::MSTORE);
    let a = a.call(op::CALL, U256::from(50_000), EMPTY, Some(U256::ZERO), 0, 0, 0, 0).op(op::POP);
    let a = a.call(op::CALL, U256::from(50_000), ID, Some(U256::ZERO), 0, 32, 32, 32).op(op::POP);
    // return (MSIZE, MLOAD(0))
    a.op(op::MSIZE).push_u(64).op(op::MSTORE).push_u(0).op(op::MLOAD).push_u(96).op(op::MSTORE).push_u(64).push_u(64).op(op::RETURN).build()
}
fn alphabet() -> Vec<Mac> {
    let w = |to, in_len, out_off, out_len| Mac::CallWin { to, in_len, out_off, out_len };
    vec![
        Mac::Mstore(0),
        Mac::Mstore(480),
        Mac::Mstore(704),
        Mac::Mstore(1 << 14),
        Mac::Mstore8(100),
        Mac::Mload(0),
        Mac::Mload(64),
        Mac::Mload(2000),
        Mac::Msize,
        Mac::Mcopy(0, 32, 64),
        Mac::Mcopy(800, 0, 32),
        Mac::Keccak(96),
        w(BOK, 0, 0, 32),
        w(BOK, 0, 16, 8),
        w(BRET64, 0, 32, 64),
        w(BRET64, 32, 1000, 32),
        w(EMPTY, 0, 0, 32),
        w(EMPTY, 64, 96, 64),
        w(ID, 32, 0, 32),
        w(ID, 64, 32, 16),
        w(MEMCHILD, 0, 0, 64),
        w(MEMCHILD, 0, 500, 64),
        w(BREV, 0, 0, 32),
        w(BHALT, 0, 8, 8),
        Mac::Create { init: Init::Code1, value: 0 },
        Mac::Return(40),
    ]
}
fn build_case(spec: SpecId, seq: &[Mac]) -> TxCase {
    let mut w = std_world();
    w.insert(MEMCHILD, PlainAcc::contract(&memchild_code()));
    w.insert(A, PlainAcc::contract(&assemble(seq)).with_balance(U256::from(10)));
    let mut c = TxCase::new(spec, w);
    c.tx.gas_limit = 3_000_000;
    c
}
fn mem_gas(words: u128) -> u128 {
    3 * words + words * words / 512
}

pub fn check_case(case: &TxCase) -> (Vec<(String, String)>, u64, String) {
    let mut m = Mon::new(true);
    m.record_mem = true;
    let (o, mon, _) = exec_monitored_cfg(case, m);
    let mut v = vec![];
    if o.class == Class::Fatal || o.class == Class::Invalid {
        v.push((if o.reason.starts_with("panic") { "panic".to_string() } else { "driver-failed".to_string() }, o.reason.clone()));
        return (v, 0, String::new());
    }
    let mut expansions = 0u64;
    let mut calls_checked = 0u64;
    // memory length of each open frame, by journal depth
    let mut frame_len: Vec<(u64, usize)> = vec![];
    let mut fresh_frame = true; // the transaction's first frame
    for ev in &mon.events {
        match ev {
            MEv::FrameStart(_) => fresh_frame = true,
            MEv::FrameEnd(_) | MEv::Immediate(_) => {}
            MEv::Step(i) => {
                let s = &mon.steps[*i];
                if s.is_eof {
                    continue;
                }
                while frame_len.last().map(|(d, _)| *d > s.depth).unwrap_or(false) {
                    frame_len.pop();
                }
                if fresh_frame {
                    fresh_frame = false;
                    if s.mem_len_before != 0 {
                        v.push(("frame-starts-with-memory".into(), format!("first instruction of the frame at depth {} (pc {}) sees {} bytes of memory", s.depth, s.pc, s.mem_len_before)));
                    }
                    frame_len.push((s.depth, 0));
                }
                if frame_len.last().map(|(d, _)| *d != s.depth).unwrap_or(true) {
                    frame_len.push((s.depth, s.mem_len_before));
                }
                let known = frame_len.last().unwrap().1;
                if s.mem_len_before != known {
                    v.push(("memory-size-changed-between-instructions".into(), format!("depth {} pc {} op 0x{:02x}: memory is {} bytes, it was {} after the frame's previous instruction", s.depth, s.pc, s.op, s.mem_len_before, known)));
                }
                if s.mem_len_after % 32 != 0 || s.mem_len_after < s.mem_len_before {
                    v.push(("memory-size".into(), format!("depth {} pc {} op 0x{:02x}: memory went from {} to {} bytes", s.depth, s.pc, s.op, s.mem_len_before, s.mem_len_after)));
                }
                frame_len.last_mut().unwrap().1 = s.mem_len_after;
                let ok_result = matches!(format!("{:?}", s.result).as_str(), "Continue" | "Stop" | "Return" | "CallOrCreate" | "SelfDestruct");
                if s.mem_len_after > s.mem_len_before && ok_result {
                    expansions += 1;
                    let delta = mem_gas(s.mem_len_after as u128 / 32) - mem_gas(s.mem_len_before as u128 / 32);
                    let charged = (s.gas_before - s.gas_after) as u128;
                    let fixed: Option<u128> = match s.op {
                        0x51 | 0x52 | 0x53 => Some(3),
                        0x5e => Some(3 + 3 * ((s.stack.get(2).map(|x| x.to::<u128>()).unwrap_or(0) + 31) / 32)),
                        0x20 => Some(30 + 6 * ((s.stack.get(1).map(|x| x.to::<u128>()).unwrap_or(0) + 31) / 32)),
                        0xf3 | 0xfd => Some(0),
                        _ => None,
                    };
                    match fixed {
                        Some(f) if charged != f + delta => v.push(("expansion-gas".into(), format!("depth {} pc {} op 0x{:02x}: memory {} -> {} bytes; charged {charged}, defined {} + expansion {delta}", s.depth, s.pc, s.op, s.mem_len_before, s.mem_len_after, f))),
                        None if charged < delta => v.push(("expansion-gas".into(), format!("op 0x{:02x}: charged {charged} for an expansion that alone costs {delta}", s.op))),
                        _ => {}
                    }
                }
                // MLOAD of memory that has never been part of the frame reads zero
                if s.op == 0x51 && ok_result {
                    if let (Some(off), Some(top)) = (s.stack.first(), s.top_after) {
                        if *off >= U256::from(s.mem_len_before) && !top.is_zero() {
                            v.push(("fresh-memory-not-zero".into(), format!("depth {} pc {}: MLOAD({off}) beyond the {} bytes in use returned {top}", s.depth, s.pc, s.mem_len_before)));
                        }
                    }
                }
                if let (Some(at_call), Some(after)) = (&s.mem_at_call, &s.mem_after_return) {
                    calls_checked += 1;
                    let (oo, ol) = match s.op {
                        0xf1 | 0xf2 => (s.stack.get(5), s.stack.get(6)),
                        0xf4 | 0xfa => (s.stack.get(4), s.stack.get(5)),
                        _ => (None, None),
                    };
                    let (wo, wl) = (oo.map(|x| x.saturating_to::<usize>()).unwrap_or(0), ol.map(|x| x.saturating_to::<usize>()).unwrap_or(0));
                    if at_call.len() != after.len() {
                        v.push(("caller-memory-size-changed".into(), format!("depth {} pc {} op 0x{:02x}: caller memory had {} bytes when the call started and {} when it resumed", s.depth, s.pc, s.op, at_call.len(), after.len())));
                    } else if let Some(pos) = (0..after.len()).find(|p| at_call[*p] != after[*p] && !(*p >= wo && *p < wo.saturating_add(wl))) {
                        v.push(("caller-memory-changed".into(), format!("depth {} pc {} op 0x{:02x}: byte {pos} of the caller's memory changed from {:02x} to {:02x} outside the return window [{wo}, {wo}+{wl})", s.depth, s.pc, s.op, at_call[pos], after[pos])));
                    }
                }
                if v.len() > 3 {
                    break;
                }
            }
        }
    }
    let sig = format!("{:?}/{}/e{}c{}", o.class, o.reason, expansions.min(5), calls_checked.min(5));
    (v, mon.step_count, sig)
}

pub fn replay(case: &Value) -> Vec<Violation> {
    let c: TxCase = serde_json::from_value(case["case"].clone()).unwrap();
    check_case(&c).0.into_iter().map(|(k, m)| Violation { key: k, msg: m, case: case.clone() }).collect()
}
pub fn run_b(ctx: &Ctx) -> Acc {
    let depth = ctx.tier.pick(3, 4);
    let specs = [SpecId::FRONTIER, SpecId::BYZANTIUM, SpecId::CANCUN];
    let mut jobs = vec![];
    for s in specs {
        let a: Vec<Mac> = alphabet().into_iter().filter(|m| s.is_enabled_in(m.since())).collect();
        for seq in sequences(&a, depth) {
            jobs.push((s, seq));
        }
    }
    let accs: Vec<Acc> = jobs
        .par_chunks(64)
        .map(|ch| {
            let mut a = Acc::new();
            for (s, seq) in ch {
                if ctx.over_budget() {
                    a.capped = true;
                    break;
                }
                let case = build_case(*s, seq);
                let (v, steps, sig) = check_case(&case);
                a.evaluations += 1;
                a.states += 1;
                a.transitions += steps.max(1);
                a.distinct(&(s, &sig));
                a.outcome(&format!("program:{sig}"));
                if a.samples.len() < 1 && seq.len() == depth {
                    a.sample(|| json!({"spec": spec_name(*s), "program": format!("{seq:?}"), "result": sig}));
                }
                for (k, m) in v {
                    a.violation(Violation { key: k, msg: format!("{s:?} {seq:?}: {m}"), case: json!({"program": format!("{seq:?}"), "case": case}) });
                }
            }
            a
        })
        .collect();
    let mut acc = merge_all(accs);
    acc.bump("program_cases", acc.evaluations);
    acc
}
