//! C22: disabling the beneficiary reward is honoured and survives reconfiguration — E1 on a real Evm.
use crate::exec::*;
use crate::explore::{self, Canon, Model};
use crate::fw::*;
use crate::world::*;
use revm::db::{CacheDB, EmptyDB};
use revm::primitives::{spec_to_generic, ResultAndState, SpecId, U256};
use revm::{Evm, Handler};
use serde::{Deserialize, Serialize};
use serde_json::{json, Value};

#[derive(Clone, Debug, Serialize, Deserialize, PartialEq)]
pub enum Op {
    ModifySpecId(u8),
    BuilderWithSpecId(u8),
    AppendNoopRegister,
    PopRegister,
    CreateHandleGeneric(u8),
    ModifyBuild,
    ModifyEnvBuild,
}
#[cfg(not(feature = "op"))]
const SPECS: [SpecId; 3] = [SpecId::LONDON, SpecId::SHANGHAI, SpecId::CANCUN];
#[cfg(feature = "op")]
const SPECS: [SpecId; 3] = [SpecId::BEDROCK, SpecId::ECOTONE, SpecId::ISTHMUS];

type E = Evm<'static, (), CacheDB<EmptyDB>>;
pub struct S {
    off: Option<E>,
    on: Option<E>,
    hist: Vec<String>,
    last: String,
}
pub struct M {
    pub optimism: bool,
}

fn noop_register(_h: &mut revm::handler::register::EvmHandler<'_, (), CacheDB<EmptyDB>>) {}

fn base_case() -> TxCase {
    let mut w = base_world();
    w.insert(A, PlainAcc::contract(&[0x00]));
    let mut c = TxCase::new(SPECS[0], w);
    c.tx.gas_price = U256::from(10);
    c.block.basefee = U256::from(7);
    c.tx.gas_limit = 100_000;
    c
}
fn build(m: &M, reward: bool) -> E {
    let c = base_case();
    let spec = SPECS[0];
    #[allow(unused_mut)]
    let mut env = c.env();
    let db = to_cachedb(&c.world);
    #[cfg(feature = "op")]
    {
        if m.optimism {
            env.tx.optimism.enveloped_tx = Some(revm::primitives::Bytes::from_static(&[0x01, 0x02, 0x03, 0x04]));
            let h = Handler::optimism_with_spec(spec, reward);
            return Evm::builder().with_db(l1_block_db(db)).with_env(env).with_handler(h).build();
        }
    }
    let _ = m;
    Evm::builder().with_db(db).with_env(env).with_handler(Handler::mainnet_with_spec(spec, reward)).build()
}
#[cfg(feature = "op")]
fn l1_block_db(mut db: CacheDB<EmptyDB>) -> CacheDB<EmptyDB> {
    use revm::optimism::L1_BLOCK_CONTRACT;
    // non-zero L1 parameters so that the L1 fee and operator fee vaults would be paid
    db.insert_account_info(L1_BLOCK_CONTRACT, revm::primitives::AccountInfo::default());
    for (slot, v) in [(1u64, 1_000u64), (5, 100), (6, 2), (7, 3)] {
        db.insert_account_storage(L1_BLOCK_CONTRACT, U256::from(slot), U256::from(v)).unwrap();
    }
    // Ecotone scalars (base fee scalar 7 at byte 16, blob base fee scalar 9 at byte 20) and Isthmus operator
    // fee parameters (scalar 500000 at byte 20, constant 1000 at byte 24), so that every vault would be paid
    db.insert_account_storage(L1_BLOCK_CONTRACT, U256::from(3), (U256::from(7) << 96) | (U256::from(9) << 64)).unwrap();
    db.insert_account_storage(L1_BLOCK_CONTRACT, U256::from(8), (U256::from(500_000) << 64) | U256::from(1000)).unwrap();
    db
}

fn apply_one(evm: E, op: &Op) -> E {
    match op {
        Op::ModifySpecId(i) => {
            let mut e = evm;
            e.modify_spec_id(SPECS[*i as usize]);
            e
        }
        Op::BuilderWithSpecId(i) => evm.modify().with_spec_id(SPECS[*i as usize]).build(),
        Op::AppendNoopRegister => evm.modify().append_handler_register(noop_register).build(),
        Op::PopRegister => {
            let mut e = evm;
            e.handler.pop_handle_register();
            e
        }
        Op::CreateHandleGeneric(i) => {
            let mut e = evm;
            let h = spec_to_generic!(SPECS[*i as usize], e.handler.create_handle_generic::<SPEC>());
            // adopt the generated handler, keeping the configuration the old one had
            let mut cfg = e.handler.cfg;
            cfg.spec_id = h.cfg.spec_id;
            e.handler = h;
            e.handler.cfg = cfg;
            e
        }
        Op::ModifyBuild => evm.modify().build(),
        Op::ModifyEnvBuild => evm.modify().modify_tx_env(|t| t.gas_limit = 100_000).build(),
    }
}

fn fees(r: &ResultAndState, a: revm::primitives::Address) -> U256 {
    r.state.get(&a).map(|x| x.info.balance).unwrap_or_default()
}

impl Model for M {
    type State = S;
    type Op = Op;
    fn name(&self) -> String {
        format!("reward/{}", if self.optimism { "optimism" } else { "mainnet" })
    }
    fn inits(&self) -> Vec<Vec<Op>> {
        vec![vec![]]
    }
    fn fresh(&self) -> S {
        S { off: Some(build(self, false)), on: Some(build(self, true)), hist: vec![], last: String::new() }
    }
    fn enabled(&self, _s: &S) -> Vec<Op> {
        let mut v = vec![];
        for i in 0..3u8 {
            v.push(Op::ModifySpecId(i));
            v.push(Op::BuilderWithSpecId(i));
            v.push(Op::CreateHandleGeneric(i));
        }
        v.extend([Op::AppendNoopRegister, Op::PopRegister, Op::ModifyBuild, Op::ModifyEnvBuild]);
        v
    }
    fn apply(&self, s: &mut S, op: &Op) -> Result<(), (String, String)> {
        s.off = Some(apply_one(s.off.take().unwrap(), op));
        s.on = Some(apply_one(s.on.take().unwrap(), op));
        let opname = format!("{op:?}");
        s.hist.push(opname.clone());
        let kind = opname.split('(').next().unwrap().to_string();
        let r_off = s.off.as_mut().unwrap().transact().map_err(|e| ("transact-error".to_string(), format!("{e:?}")))?;
        let r_on = s.on.as_mut().unwrap().transact().map_err(|e| ("transact-error".to_string(), format!("{e:?}")))?;
        let mut payees = vec![COINBASE];
        #[cfg(feature = "op")]
        {
            if self.optimism {
                payees.extend([revm::optimism::L1_FEE_RECIPIENT, revm::optimism::BASE_FEE_RECIPIENT, revm::primitives::address!("420000000000000000000000000000000000001B")]);
            }
        }
        for p in &payees {
            let got = fees(&r_off, *p);
            if !got.is_zero() {
                return Err((format!("reward-paid-after:{kind}"), format!("rewards are disabled, yet {p} holds {got} after the transaction (spec {:?})", s.off.as_ref().unwrap().spec_id())));
            }
        }
        if r_off.result != r_on.result {
            return Err(("result-differs".into(), format!("{:?} vs {:?}", r_off.result, r_on.result)));
        }
        for (a, acc) in &r_on.state {
            if payees.contains(a) {
                continue;
            }
            match r_off.state.get(a) {
                Some(o) if o.info == acc.info && o.storage == acc.storage => {}
                other => return Err(("other-effect-differs".into(), format!("account {a}: {:?} with rewards, {:?} without", acc.info, other.map(|x| &x.info)))),
            }
        }
        let paid = fees(&r_on, COINBASE);
        s.last = format!("{kind}:{:?}:twin-paid={}", s.off.as_ref().unwrap().spec_id(), !paid.is_zero());
        Ok(())
    }
    fn canon(&self, s: &S, c: &mut Canon) {
        // handlers are opaque closures: no two histories are merged
        c.add(&s.hist);
    }
    fn outcome(&self, s: &S, _op: &Op) -> String {
        s.last.clone()
    }
}

fn models() -> Vec<M> {
    #[cfg(feature = "op")]
    {
        vec![M { optimism: false }, M { optimism: true }]
    }
    #[cfg(not(feature = "op"))]
    {
        vec![M { optimism: false }]
    }
}
pub fn replay(case: &Value) -> Vec<Violation> {
    let name = case["model"].as_str().unwrap_or("");
    for m in models() {
        if m.name() == name {
            return explore::replay_value(&m, case);
        }
    }
    vec![]
}
/// run the models of this build; returns the accumulator (the `main` build spawns the `op` build too)
pub fn run_models(ctx: &Ctx) -> Acc {
    let depth = ctx.tier.pick(4, 5);
    let mut acc = Acc::new();
    for m in models() {
        acc.merge(explore::explore(&m, depth, ctx));
    }
    acc
}
pub fn run(ctx: &Ctx) -> i32 {
    #[allow(unused_mut)]
    let mut acc = run_models(ctx);
    // the `op` build of this check runs first (see ./check) and leaves its own evidence file
    #[cfg(not(feature = "op"))]
    {
        if let Ok(s) = std::fs::read_to_string(verif_root().join("evidence").join("C22.op.json")) {
            if let Ok(v) = serde_json::from_str::<Value>(&s) {
                acc.bump("optimism_build_states", v["coverage"]["states"].as_u64().unwrap_or(0));
                acc.bump("optimism_build_transitions", v["coverage"]["transitions"].as_u64().unwrap_or(0));
            }
        }
    }
    let meta = Meta {
        rule: "every sequence of <= 4 (quick) / <= 5 (thorough) reconfigurations (modify_spec_id, builder with_spec_id, append / pop handler register, create_handle_generic adopted as the handler, modify().build(), modify().modify_tx_env().build()) over 3 specs on an Evm built without beneficiary rewards, a fee-paying transaction after every step, compared with the same sequence on a rewards-enabled twin; no two histories are merged".into(),
        assumptions: vec!["the builder's reset_handler* methods are documented to reset to the default handler and are not in the alphabet".into(), "the Optimism handler (vaults) is explored by the `op` build of the harness".into()],
        bounds: json!({"specs": SPECS.iter().map(|s| format!("{s:?}")).collect::<Vec<_>>(), "ops": 13}),
        min_distinct: 10,
        exhaustive: true,
        explanation: "coinbase (and vaults) receive nothing; every other effect equals the rewards-enabled twin".into(),
    };
    finish(ctx, acc, meta, &replay)
}
