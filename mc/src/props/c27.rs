//! C27: stored bytecode keeps its original bytes and hash — E3 over byte strings.
use crate::fw::*;
use rayon::prelude::*;
use revm::interpreter::analysis::to_analysed;
use revm::primitives::{keccak256, Address, Bytecode, Bytes, Eip7702Bytecode, B256, KECCAK_EMPTY};
use serde_json::{json, Value};

fn expect_hash(b: &[u8]) -> B256 {
    if b.is_empty() {
        KECCAK_EMPTY
    } else {
        keccak256(b)
    }
}

fn check_bc(tag: &str, bc: &Bytecode, b: &[u8], out: &mut Vec<(String, String)>) {
    if bc.original_bytes().as_ref() != b {
        out.push((format!("{tag}:original_bytes"), format!("original_bytes() = 0x{} for input 0x{}", hex::encode(bc.original_bytes()), hex::encode(b))));
    }
    if bc.original_byte_slice() != b {
        out.push((format!("{tag}:original_byte_slice"), format!("original_byte_slice() differs for input 0x{}", hex::encode(b))));
    }
    if bc.len() != b.len() || bc.is_empty() != b.is_empty() {
        out.push((format!("{tag}:len"), format!("len() = {}, is_empty() = {} for a {}-byte input", bc.len(), bc.is_empty(), b.len())));
    }
    if bc.hash_slow() != expect_hash(b) {
        out.push((format!("{tag}:hash"), format!("hash_slow() = {} but keccak256(input) = {}", bc.hash_slow(), expect_hash(b))));
    }
}

fn check_bytes(b: &[u8]) -> Vec<(String, String)> {
    let mut out = vec![];
    let bytes = Bytes::copy_from_slice(b);
    let legacy = Bytecode::new_legacy(bytes.clone());
    check_bc("new_legacy", &legacy, b, &mut out);
    let an = to_analysed(legacy);
    check_bc("to_analysed", &an, b, &mut out);
    if an.bytes_slice().len() < b.len() || &an.bytes_slice()[..b.len()] != b {
        out.push(("to_analysed:padded-prefix".into(), format!("analysis altered the first {} bytes", b.len())));
    }
    if an.bytes_slice().len() > b.len() && an.bytes_slice()[b.len()..].iter().any(|x| *x != 0) {
        out.push(("to_analysed:padding".into(), "padding is not zero".into()));
    }
    // analysing twice is idempotent
    let an2 = to_analysed(an.clone());
    if an2 != an {
        out.push(("to_analysed:idempotent".into(), "second analysis changed the bytecode".into()));
    }
    match Bytecode::new_raw_checked(bytes.clone()) {
        Ok(bc) => {
            check_bc("new_raw_checked", &bc, b, &mut out);
            let a = to_analysed(bc);
            check_bc("new_raw_checked+to_analysed", &a, b, &mut out);
        }
        Err(_) => {
            if !(b.starts_with(&[0xef, 0x00]) || b.starts_with(&[0xef, 0x01])) {
                out.push(("new_raw_checked:rejects-legacy".into(), format!("legacy bytes 0x{} rejected", hex::encode(b))));
            }
            if b.len() == 23 && b.starts_with(&[0xef, 0x01, 0x00]) {
                out.push(("new_raw_checked:rejects-designator".into(), "well-formed EIP-7702 designator rejected".into()));
            }
        }
    }
    out
}

fn check_addr(a: Address) -> Vec<(String, String)> {
    let mut out = vec![];
    let bc = Bytecode::new_eip7702(a);
    let mut raw = vec![0xef, 0x01, 0x00];
    raw.extend_from_slice(a.as_slice());
    check_bc("new_eip7702", &bc, &raw, &mut out);
    match Eip7702Bytecode::new_raw(Bytes::from(raw.clone())) {
        Ok(d) => {
            if d.address() != a || d.raw().as_ref() != &raw[..] {
                out.push(("eip7702:decode".into(), format!("designator for {a} decodes to {}", d.address())));
            }
        }
        Err(e) => out.push(("eip7702:decode".into(), format!("designator for {a} does not decode: {e:?}"))),
    }
    match Bytecode::new_raw_checked(Bytes::from(raw.clone())) {
        Ok(Bytecode::Eip7702(d)) => {
            if d.address() != a || Bytecode::Eip7702(d.clone()).original_bytes().as_ref() != &raw[..] {
                out.push(("eip7702:roundtrip".into(), format!("re-decoded designator names {}", d.address())));
            }
            if Bytecode::new_eip7702(d.address()).original_bytes().as_ref() != &raw[..] {
                out.push(("eip7702:reencode".into(), "re-encoding differs".into()));
            }
        }
        other => out.push(("eip7702:roundtrip".into(), format!("new_raw_checked gave {other:?}"))),
    }
    out
}

pub fn replay(case: &Value) -> Vec<Violation> {
    let r = if let Some(c) = case.get("code") {
        let b = hex::decode(c.as_str().unwrap()).unwrap();
        catch(|| check_bytes(&b))
    } else {
        let a: Address = serde_json::from_value(case["address"].clone()).unwrap();
        catch(|| check_addr(a))
    };
    match r {
        Ok(v) => v.into_iter().map(|(k, m)| Violation { key: k, msg: m, case: case.clone() }).collect(),
        Err(p) => vec![Violation { key: "panic".into(), msg: p, case: case.clone() }],
    }
}

fn nth(alpha: &[u8], len: usize, idx: u64, prefix: &[u8]) -> Vec<u8> {
    let mut v = prefix.to_vec();
    let mut x = idx;
    for _ in 0..len {
        v.push(alpha[(x % alpha.len() as u64) as usize]);
        x /= alpha.len() as u64;
    }
    v
}

pub fn run(ctx: &Ctx) -> i32 {
    let all: Vec<u8> = (0..=255u8).collect();
    let small = [0x00u8, 0x5b, 0x60, 0x7f, 0xef, 0xff];
    // (alphabet, max_len, prefix)
    let mut spaces: Vec<(Vec<u8>, usize, Vec<u8>)> = vec![
        (all.clone(), 2, vec![]),
        (small.to_vec(), ctx.tier.pick(6, 8), vec![]),
        (all.clone(), ctx.tier.pick(2, 3), vec![0xef, 0x00]),
        (all.clone(), ctx.tier.pick(2, 3), vec![0xef, 0x01]),
    ];
    // ef01 || version || 19..21 more bytes: lengths 22, 23, 24 with version bytes 0/1
    for ver in [0u8, 1] {
        for extra in [19usize, 20, 21] {
            let mut p = vec![0xef, 0x01, ver];
            p.extend(std::iter::repeat(0xaa).take(extra - 1));
            spaces.push((all.clone(), 1, p));
        }
    }
    let mut acc = Acc::new();
    for (alpha, maxlen, prefix) in &spaces {
        for len in 0..=*maxlen {
            let total = (alpha.len() as u64).pow(len as u32);
            let a: Acc = (0..total)
                .into_par_iter()
                .fold(Acc::new, |mut a, i| {
                    let b = nth(alpha, len, i, prefix);
                    a.evaluations += 1;
                    match catch(|| check_bytes(&b)) {
                        Ok(v) => {
                            for (k, m) in v {
                                a.violation(Violation { key: k, msg: m, case: json!({"code": hex::encode(&b)}) });
                            }
                        }
                        Err(p) => a.violation(Violation { key: "panic".into(), msg: p, case: json!({"code": hex::encode(&b)}) }),
                    }
                    if i % 4099 == 0 {
                        a.distinct(&b);
                    }
                    a
                })
                .reduce(Acc::new, |mut x, y| {
                    x.merge(y);
                    x
                });
            acc.merge(a);
        }
    }
    // code with long runs of trailing zero bytes (the analysis pads with 33 zero bytes): every head of length <= 2
    // over {00, 5b, 60, 7f, ff} x 0..=70 trailing zeros
    {
        let heads: Vec<Vec<u8>> = {
            let al = [0x00u8, 0x5b, 0x60, 0x7f, 0xff];
            let mut v = vec![vec![]];
            for a in al {
                v.push(vec![a]);
                for b in al {
                    v.push(vec![a, b]);
                }
            }
            v
        };
        for h in &heads {
            for zeros in 0..=70usize {
                let mut b = h.clone();
                b.extend(std::iter::repeat(0u8).take(zeros));
                acc.evaluations += 1;
                acc.transitions += 1;
                for (k, m) in check_bytes(&b) {
                    acc.violation(Violation { key: k, msg: m, case: json!({"code": hex::encode(&b)}) });
                }
                if zeros % 16 == 0 {
                    acc.distinct(&b);
                }
            }
        }
    }
    // EOF containers, complete and with a truncated data section (which decoding accepts), with and without
    // sub-containers: every data shape x every truncation of the data section
    {
        use crate::props::c26::Cont;
        let sub = Cont::simple(vec![0x00], 0).raw();
        for subs in [vec![], vec![sub.clone()]] {
            for declared in [0u16, 1, 4, 32] {
                for present in 0..=declared {
                    let mut c = Cont::simple(vec![0xfe], 0);
                    c.containers = subs.clone();
                    c.data = vec![0xaa; present as usize];
                    c.data_hdr = declared;
                    let b = c.raw();
                    acc.evaluations += 1;
                    acc.transitions += 1;
                    for (k, m) in check_bytes(&b) {
                        acc.violation(Violation { key: k, msg: m, case: json!({"code": hex::encode(&b)}) });
                    }
                    acc.distinct(&b);
                }
            }
        }
    }
    // a few valid EOF containers
    for hexs in ["ef000101000402000100010400000000800000fe", "ef00010100040200010001040000000080000000"] {
        let b = hex::decode(hexs).unwrap();
        acc.evaluations += 1;
        for (k, m) in check_bytes(&b) {
            acc.violation(Violation { key: k, msg: m, case: json!({"code": hexs}) });
        }
        acc.distinct(&b);
    }
    // addresses
    let mut addrs = vec![Address::ZERO, Address::repeat_byte(0xff), Address::repeat_byte(0xef), Address::repeat_byte(0x01)];
    for i in 0..20 {
        let mut x = [0u8; 20];
        x[i] = 0xef;
        addrs.push(Address::new(x));
        let mut y = [0xffu8; 20];
        y[i] = 0x00;
        addrs.push(Address::new(y));
    }
    for i in 0..=255u8 {
        addrs.push(Address::with_last_byte(i));
    }
    for a in &addrs {
        acc.evaluations += 1;
        acc.distinct(a);
        match catch(|| check_addr(*a)) {
            Ok(v) => {
                for (k, m) in v {
                    acc.violation(Violation { key: k, msg: m, case: json!({"address": a}) });
                }
            }
            Err(p) => acc.violation(Violation { key: "panic".into(), msg: p, case: json!({"address": a}) }),
        }
    }
    acc.states = acc.evaluations;
    acc.transitions = acc.evaluations * 4;
    acc.sample(|| json!({"code":"ef0100"}));
    acc.sample(|| json!({"code":"7f5b"}));
    acc.sample(|| json!({"address": Address::repeat_byte(0xef)}));
    let meta = Meta {
        rule: "all byte strings of length <= 2 over all bytes, <= 6/8 over {00,5b,60,7f,ef,ff}, ef00||x and ef01||x for |x| <= 2/3 over all bytes, 22/23/24-byte ef01 strings, heads of length <= 2 followed by 0..=70 zero bytes, EOF containers with every truncation of 4 data sizes with and without a sub-container, 300 addresses; distinct = sampled distinct inputs (every 4099th) plus addresses".into(),
        assumptions: vec!["keccak256 (alloy/tiny-keccak) is trusted as the hash".into()],
        bounds: json!({"spaces": spaces.iter().map(|(a, l, p)| format!("{}^<= {} after 0x{}", a.len(), l, hex::encode(p))).collect::<Vec<_>>(), "addresses": addrs.len()}),
        min_distinct: 50,
        exhaustive: true,
        explanation: "constructor -> observers round trip for every enumerated byte string".into(),
    };
    finish(ctx, acc, meta, &replay)
}
