//! C25: interpreting any bytecode is memory-safe and always terminates with a result — E2 + monitors.
//!
//! Enumerated: every byte string up to a length bound as contract code (bare and behind 17 operands),
//! every opcode behind every pair of boundary operands, macro programs, and (OSAKA) every EOF
//! container accepted by validation in C26's enumeration; crossed with calldata, gas limits and all
//! SpecIds. Oracle: no panic (debug assertions on), instruction pointer inside the code buffer after
//! every step (monitor), a defined result with gas_used <= gas_limit, steps bounded by the gas.
use crate::asm::Asm;
use crate::exec::*;
use crate::fw::*;
use crate::gen::{floor_simple, intrinsic_simple};
use crate::macros::*;
use crate::monitor::{monitor_register, Mon};
use crate::world::*;
use rayon::prelude::*;
use revm::db::{CacheDB, EmptyDB};
use revm::primitives::{Bytes, SpecId, TxKind, U256};
use revm::Evm;
use serde::{Deserialize, Serialize};
use serde_json::{json, Value};

#[derive(Clone, Debug, Serialize, Deserialize)]
pub struct Case {
    pub spec: String,
    pub code: Bytes,
    pub calldata: Bytes,
    /// gas on top of the intrinsic / floor gas of the transaction
    pub extra_gas: u64,
}

pub type Runner = Evm<'static, Mon, CacheDB<EmptyDB>>;
pub fn runner(spec: SpecId) -> Runner {
    let mut w = std_world();
    w.insert(A, PlainAcc::contract(&[0]).with_balance(U256::from(10)).with_storage(1, 5));
    let mut c = TxCase::new(spec, w);
    c.block.gas_limit = U256::from(u64::MAX);
    Evm::builder().with_db(to_cachedb(&c.world)).with_external_context(Mon::new(false)).with_env(c.env()).with_spec_id(spec).append_handler_register(monitor_register).build()
}
pub struct Obs {
    /// (journal depth, code section, pc) of every EOF instruction executed
    pub eof_pcs: Vec<(u64, usize, usize)>,
    pub class: String,
    pub gas_used: u64,
    pub steps: u64,
    pub frames: u64,
}
/// run one case on a (reused) runner; returns the observation and the violations
pub fn run_on(evm: &mut Runner, spec: SpecId, c: &Case) -> (Obs, Vec<(String, String)>) {
    let mut v = vec![];
    let intrinsic = intrinsic_simple(spec, &c.calldata, false, 0, 0, 0);
    let gas_limit = intrinsic.max(floor_simple(spec, &c.calldata)).saturating_add(c.extra_gas);
    {
        let db = &mut evm.context.evm.inner.db;
        db.contracts.clear();
        let mut acc = PlainAcc::contract(&c.code).with_balance(U256::from(10));
        acc.code = c.code.clone();
        // hand the code out raw, as a database that stores plain bytes does: analysis happens in revm
        let mut info = acc.info();
        info.code = Some(revm::primitives::Bytecode::new_raw_checked(c.code.clone()).unwrap_or_else(|_| revm::primitives::Bytecode::new_legacy(c.code.clone())));
        db.insert_account_info(A, info);
        let tx = &mut evm.context.evm.inner.env.tx;
        tx.transact_to = TxKind::Call(A);
        tx.data = c.calldata.clone();
        tx.gas_limit = gas_limit;
    }
    evm.context.external = Mon::new(false);
    evm.context.external.trace_eof_pcs = c.code.starts_with(&[0xef, 0x00]);
    let r = catch(|| evm.transact());
    let mut mon = std::mem::take(&mut evm.context.external);
    let depth = evm.context.evm.journaled_state.depth();
    let mut obs = Obs { eof_pcs: std::mem::take(&mut mon.eof_pcs), class: String::new(), gas_used: 0, steps: mon.step_count, frames: mon.attempts.len() as u64 + 1 };
    match r {
        Err(p) => {
            obs.class = "panic".into();
            if mon.ip_violations.is_empty() {
                v.push(("panic".into(), format!("execution panicked: {p}")));
            }
            // (when the monitor stopped the frame because the pointer left the code, the panic is the
            // monitor's own stop signal and the pointer violation is what is reported)
            for ip in &mon.ip_violations {
                v.push(("instruction-pointer-out-of-code".into(), ip.clone()));
            }
            // the instance may be inconsistent after a panic: rebuild it
            *evm = runner(spec);
            return (obs, v);
        }
        Ok(Err(e)) => {
            obs.class = format!("error:{e:?}");
            v.push(("no-defined-outcome".into(), format!("transaction with gas limit {gas_limit} (intrinsic {intrinsic}) returned {e:?}")));
        }
        Ok(Ok(rs)) => {
            let g = rs.result.gas_used();
            obs.gas_used = g;
            obs.class = match &rs.result {
                revm::primitives::ExecutionResult::Success { reason, .. } => format!("Success/{reason:?}"),
                revm::primitives::ExecutionResult::Revert { .. } => "Revert".into(),
                revm::primitives::ExecutionResult::Halt { reason, .. } => format!("Halt/{reason:?}"),
            };
            if g > gas_limit {
                v.push(("gas-used-above-limit".into(), format!("gas_used {g} > gas_limit {gas_limit}")));
            }
        }
    }
    for ip in &mon.ip_violations {
        v.push(("instruction-pointer-out-of-code".into(), ip.clone()));
    }
    if depth != 0 {
        v.push(("depth-not-zero".into(), format!("journal depth {depth} after the transaction")));
    }
    // every instruction that does not end its frame costs at least 1 gas
    let exec_gas = gas_limit - intrinsic;
    if mon.step_count > exec_gas.saturating_add(obs.frames) {
        v.push(("steps-exceed-gas".into(), format!("{} instructions executed with {exec_gas} gas in {} frames", mon.step_count, obs.frames)));
    }
    (obs, v)
}

fn specs_all() -> Vec<SpecId> {
    let mut s = MAINNET_SPECS.to_vec();
    s.push(SpecId::OSAKA);
    s.push(SpecId::LATEST);
    s
}
const PREFIX_OPERAND: u64 = 36;
fn prefixed(body: &[u8]) -> Vec<u8> {
    let mut a = Asm::new();
    for _ in 0..17 {
        a = a.push_u(PREFIX_OPERAND);
    }
    let mut v = a.build();
    v.extend_from_slice(body);
    // JUMPDESTs at 35 and 36 when the body is one byte long; harmless otherwise
    v.extend_from_slice(&[0x5b, 0x5b, 0x00]);
    v
}
fn boundary_words() -> Vec<U256> {
    vec![
        U256::ZERO,
        U256::from(1),
        U256::from(31),
        U256::from(32),
        U256::from(33),
        U256::from(1u64 << 16),
        U256::from(u32::MAX),
        U256::from(1u64 << 32),
        U256::from(1u64 << 63),
        U256::from(u64::MAX),
        U256::from(1u128 << 64),
        U256::MAX,
    ]
}
/// opcode behind operands x, y, x, y, ... (x on top)
fn operand_program(opc: u8, x: U256, y: U256, after_call: bool) -> Vec<u8> {
    let mut a = Asm::new();
    if after_call {
        // fill the return data buffer with 64 bytes first
        a = a.call(crate::asm::op::CALL, U256::from(50_000), BRET64, Some(U256::ZERO), 0, 0, 0, 0).op(crate::asm::op::POP);
    }
    for i in 0..8 {
        let _ = i;
        a = a.push(y).push(x);
    }
    a.op(opc).op(0x00).build()
}

fn calldatas() -> Vec<Bytes> {
    let mut long = vec![0xabu8; 33];
    long[5] = 0;
    vec![Bytes::new(), Bytes::from(vec![1u8]), Bytes::from(long)]
}

struct Shard {
    spec: SpecId,
    /// which family and which slice of it
    fam: Fam,
}
#[derive(Clone, Debug)]
enum Fam {
    /// all byte strings with this first byte (or the empty / 1-byte strings for None), up to `len`
    Raw { first: Option<u8>, len: usize, prefix: bool },
    Operands { opc: u8 },
}

fn raw_programs(first: Option<u8>, len: usize) -> Vec<Vec<u8>> {
    match first {
        None => {
            let mut v = vec![vec![]];
            v.extend((0..=255u8).map(|b| vec![b]));
            v
        }
        Some(f) => {
            let mut v = vec![];
            if len >= 2 {
                for b in 0..=255u8 {
                    v.push(vec![f, b]);
                }
            }
            if len >= 3 {
                for b in 0..=255u8 {
                    for c in 0..=255u8 {
                        v.push(vec![f, b, c]);
                    }
                }
            }
            v
        }
    }
}

fn run_shard(ctx: &Ctx, sh: &Shard, gases: &[u64], datas: &[Bytes]) -> Acc {
    let mut a = Acc::new();
    let mut evm = runner(sh.spec);
    let progs: Vec<Vec<u8>> = match &sh.fam {
        Fam::Raw { first, len, prefix } => raw_programs(*first, *len).into_iter().map(|p| if *prefix { prefixed(&p) } else { p }).collect(),
        Fam::Operands { opc } => {
            let w = boundary_words();
            let mut v = vec![];
            for x in &w {
                for y in &w {
                    v.push(operand_program(*opc, *x, *y, false));
                    if matches!(*opc, 0x3d | 0x3e | 0xf7) {
                        v.push(operand_program(*opc, *x, *y, true));
                    }
                }
            }
            v
        }
    };
    for p in progs {
        if ctx.over_budget() {
            a.capped = true;
            break;
        }
        for d in datas {
            for g in gases {
                let case = Case { spec: spec_name(sh.spec), code: Bytes::from(p.clone()), calldata: d.clone(), extra_gas: *g };
                let c2 = case.clone();
                let _g = guard("transact", move || json!({"case": c2}));
                let (obs, viol) = run_on(&mut evm, sh.spec, &case);
                drop(_g);
                a.evaluations += 1;
                a.states += 1;
                a.transitions += obs.steps.max(1);
                a.distinct(&(sh.spec, &obs.class, obs.gas_used, obs.steps));
                a.outcome(&obs.class);
                if a.samples.is_empty() && obs.steps >= 2 {
                    a.sample(|| json!({"case": case, "result": obs.class, "gas_used": obs.gas_used, "instructions": obs.steps}));
                }
                for (k, m) in viol {
                    a.violation(Violation { key: k, msg: format!("{} code {} calldata {} extra gas {}: {m}", case.spec, hex::encode(&case.code), hex::encode(&case.calldata), case.extra_gas), case: json!({"case": case}) });
                }
            }
        }
    }
    a
}

fn check_macro(c: &TxCase, r: &crate::props::txinv::Run) -> Vec<(String, String)> {
    let mut v = vec![];
    match r.o.class {
        Class::Fatal => v.push((if r.o.reason.starts_with("panic") { "panic".to_string() } else { "no-defined-outcome".to_string() }, r.o.reason.clone())),
        Class::Invalid => {}
        _ => {
            if r.o.gas_used > c.tx.gas_limit {
                v.push(("gas-used-above-limit".into(), format!("gas_used {} > gas_limit {}", r.o.gas_used, c.tx.gas_limit)));
            }
            if r.mon.step_count > c.tx.gas_limit + r.mon.attempts.len() as u64 + 1 {
                v.push(("steps-exceed-gas".into(), format!("{} instructions with gas limit {}", r.mon.step_count, c.tx.gas_limit)));
            }
        }
    }
    for ip in &r.mon.ip_violations {
        v.push(("instruction-pointer-out-of-code".into(), ip.clone()));
    }
    v
}

pub fn replay(case: &Value) -> Vec<Violation> {
    if case.get("program").is_some() {
        return crate::props::txinv::replay_with(case, &check_macro);
    }
    if case.get("eof").is_some() {
        return crate::props::c26::replay_exec(case);
    }
    let c: Case = serde_json::from_value(case["case"].clone()).unwrap();
    let spec = spec_from_name(&c.spec);
    let mut evm = runner(spec);
    let (_, v) = run_on(&mut evm, spec, &c);
    v.into_iter().map(|(k, m)| Violation { key: k, msg: m, case: case.clone() }).collect()
}

pub fn run(ctx: &Ctx) -> i32 {
    let specs = specs_all();
    let datas = calldatas();
    // extra gas above the intrinsic gas: nothing, a few instructions, one cold access, ample, huge
    let gases: Vec<u64> = match ctx.tier {
        Tier::Quick => vec![0, 5, 100_000, 1 << 62],
        Tier::Thorough => vec![0, 1, 2, 5, 2_600, 100_000, 1 << 40, 1 << 62],
    };
    let datas_q: Vec<Bytes> = match ctx.tier {
        Tier::Quick => vec![datas[2].clone()],
        Tier::Thorough => datas.clone(),
    };
    let deep_specs: Vec<SpecId> = match ctx.tier {
        Tier::Quick => vec![],
        Tier::Thorough => vec![SpecId::FRONTIER, SpecId::BYZANTIUM, SpecId::CANCUN, SpecId::PRAGUE],
    };
    let mut shards: Vec<Shard> = vec![];
    for s in &specs {
        for prefix in [false, true] {
            shards.push(Shard { spec: *s, fam: Fam::Raw { first: None, len: 1, prefix } });
            for f in 0..=255u8 {
                // length 3 without the operand prefix only: the first byte of a 3-byte body behind 17 operands
                // adds little over length 2, and the space is 16.8 M programs per spec
                let len = if deep_specs.contains(s) && !prefix { 3 } else { 2 };
                shards.push(Shard { spec: *s, fam: Fam::Raw { first: Some(f), len, prefix } });
            }
        }
        for opc in 0..=255u8 {
            shards.push(Shard { spec: *s, fam: Fam::Operands { opc } });
        }
    }
    let rot = (ctx.seed as usize) % shards.len();
    shards.rotate_left(rot);
    // length-3 shards only get two gas values (ample and tiny) and one calldata: 65 536 programs each
    let accs: Vec<Acc> = shards
        .par_iter()
        .map(|sh| {
            let deep = matches!(sh.fam, Fam::Raw { len: 3, .. });
            if deep {
                run_shard(ctx, sh, &[5, 100_000], &datas[2..3])
            } else if matches!(sh.fam, Fam::Operands { .. }) {
                // boundary operands make 4 GiB offsets affordable above 2^45 gas: the gas is capped at 2^32
                // (at most 46 MiB of EVM memory) for this family
                let g: &[u64] = if ctx.tier == Tier::Quick { &[100_000, 1 << 32] } else { &[0, 3, 2_600, 100_000, 1 << 32] };
                run_shard(ctx, sh, g, &datas_q)
            } else {
                run_shard(ctx, sh, &gases, &datas_q)
            }
        })
        .collect();
    let mut acc = merge_all(accs);
    acc.bump("raw_and_operand_cases", acc.evaluations);
    // macro programs (nested calls, creates, self-destructs, memory growth) through the shared sweep
    let alpha = crate::gen::general_alphabet();
    let deep: Vec<(SpecId, usize)> = match ctx.tier {
        Tier::Quick => vec![],
        Tier::Thorough => vec![(SpecId::CANCUN, 3), (SpecId::FRONTIER, 3)],
    };
    let m = crate::props::txinv::sweep(ctx, &alpha, ctx.tier.pick(1, 2), &deep, &check_macro);
    acc.bump("macro_cases", m.evaluations);
    acc.merge(m);
    // validated EOF containers (OSAKA)
    let e = crate::props::c26::exec_validated(ctx);
    acc.bump("eof_cases", e.evaluations);
    acc.merge(e);
    let meta = Meta {
        rule: "legacy code: every byte string of length <= 2 (thorough: <= 3 on 4 specs, bare) over all 256 byte values, bare and behind 17 operands; every opcode behind every ordered pair of 12 boundary operands (0, 1, 31..33, 2^16, 2^32-1, 2^32, 2^63, 2^64-1, 2^64, 2^256-1; copy/return-data opcodes also after a call that fills the return buffer); x calldata {empty, 1 byte, 33 bytes} x gas above intrinsic {0, few, ample, 2^62, ...} x all 21 SpecIds; macro programs of depth <= 1/2 (3 on two specs) x 15 transaction variants x 19 specs; every EOF container of C26's grammar that passes validation, run as deployed code and as init code under OSAKA; distinct = distinct (spec, outcome, gas used, instruction count)".into(),
        assumptions: vec![
            "harness built with debug assertions (revm's assume!/debug_unreachable! checks fire) and panic = unwind; the step monitor checks the instruction pointer against the code buffer after every instruction".into(),
            "gas limits above 2^32 are only combined with programs whose memory offsets come from at most three code bytes (tiny or unaffordable); the boundary-operand family is capped at 2^32 gas (<= 46 MiB of EVM memory) because revm, like the specification, allocates whatever memory the gas pays for; gas limits above 2^62 are not driven for the same reason".into(),
            "one Evm instance per (shard, spec) is reused across programs (C31 establishes that reuse is equivalent)".into(),
        ],
        bounds: json!({"raw_len": ctx.tier.pick(2, 3), "boundary_words": 12, "gases": gases, "specs": specs.len()}),
        min_distinct: 500,
        exhaustive: true,
        explanation: "no panic, pointer inside code, defined result, gas_used <= gas_limit, instruction count bounded by gas".into(),
    };
    finish(ctx, acc, meta, &replay)
}
