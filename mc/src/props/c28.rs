//! C28: attaching an observing inspector does not change execution — E2 differential.
use crate::exec::*;
use crate::fw::*;
use crate::gen::*;
use crate::props::txinv::*;
use crate::world::*;
use revm::inspectors::{GasInspector, NoOpInspector, TracerEip3155};
use revm::primitives::{EVMError, ResultAndState, SpecId};
use revm::{inspector_handle_register, Evm, Handler};
use serde_json::{json, Value};

type R = Result<ResultAndState, String>;
fn norm<E: std::fmt::Debug>(r: Result<Result<ResultAndState, EVMError<E>>, String>) -> R {
    match r {
        Ok(Ok(x)) => Ok(x),
        Ok(Err(e)) => Err(format!("{e:?}")),
        Err(p) => Err(format!("panic: {p}")),
    }
}
macro_rules! with_inspector {
    ($case:expr, $insp:expr) => {{
        let case: &TxCase = $case;
        let spec = case.spec();
        let b = Evm::builder().with_db(to_cachedb(&case.world)).with_external_context($insp).with_env(case.env()).with_spec_id(spec);
        let b = if case.reward { b } else { b.with_handler(Handler::mainnet_with_spec(spec, false)) };
        let mut evm = b.append_handler_register(inspector_handle_register).build();
        norm(catch(|| evm.transact()))
    }};
}
pub fn plain(case: &TxCase) -> R {
    let mut evm = build_evm(case, to_cachedb(&case.world), ());
    norm(catch(|| evm.transact()))
}

fn describe_diff(a: &R, b: &R) -> String {
    match (a, b) {
        (Ok(x), Ok(y)) => {
            if x.result != y.result {
                return format!("result differs: {:?} vs {:?}", x.result, y.result);
            }
            for (addr, acc) in &x.state {
                match y.state.get(addr) {
                    None => return format!("account {addr} missing from the state changes"),
                    Some(o) if o != acc => return format!("account {addr} differs: {:?}/{:?}/{} slots vs {:?}/{:?}/{} slots", acc.info, acc.status, acc.storage.len(), o.info, o.status, o.storage.len()),
                    _ => {}
                }
            }
            for addr in y.state.keys() {
                if !x.state.contains_key(addr) {
                    return format!("extra account {addr} in the state changes");
                }
            }
            "equal".into()
        }
        (x, y) => format!("{:?} vs {:?}", x.as_ref().map(|r| &r.result), y.as_ref().map(|r| &r.result)),
    }
}

pub fn check(case: &TxCase, _r: &Run) -> Vec<(String, String)> {
    let mut v = vec![];
    let base = plain(case);
    let runs: [(&str, R); 3] = [
        ("NoOpInspector", with_inspector!(case, NoOpInspector)),
        ("GasInspector", with_inspector!(case, GasInspector::default())),
        ("TracerEip3155", with_inspector!(case, TracerEip3155::new(Box::new(std::io::sink())))),
    ];
    for (name, r) in runs.iter() {
        if *r != base {
            v.push((format!("inspector-changes-execution:{name}"), format!("with {name}: {}", describe_diff(&base, r))));
        }
    }
    v
}

pub fn replay(case: &Value) -> Vec<Violation> {
    replay_with(case, &check)
}
pub fn run(ctx: &Ctx) -> i32 {
    let alpha = general_alphabet();
    let deep: Vec<(SpecId, usize)> = match ctx.tier {
        Tier::Quick => vec![],
        Tier::Thorough => vec![(SpecId::FRONTIER, 3), (SpecId::BERLIN, 3), (SpecId::CANCUN, 3), (SpecId::PRAGUE, 3)],
    };
    let acc = sweep(ctx, &alpha, 2, &deep, &check);
    let meta = Meta {
        rule: "every macro program of depth <= 2 on 19 specs (thorough: <= 3 on 4 specs) x 15 transaction variants, run without an inspector and with NoOpInspector, GasInspector and TracerEip3155; distinct = distinct (spec, class, reason, gas, refund, logs)".into(),
        assumptions: vec!["comparison is full equality of ResultAndState (result, logs, every account's info, status and storage slots)".into()],
        bounds: json!({"depth": 2, "macros": alpha.len(), "tx_variants": 15, "inspectors": 3}),
        min_distinct: 300,
        exhaustive: true,
        explanation: "differential oracle: no reference needed".into(),
    };
    finish(ctx, acc, meta, &replay)
}
