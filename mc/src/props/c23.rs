//! C23: precompiles return the output and gas their EIPs define — E3 (exhaustive input lattices with
//! reference definitions in Python) + E2 (the result mapping of `EvmContext::call_precompile`
//! through real CALLs). C24: the same ecrecover / KZG lattices in the two backend builds.
//!
//! The lattices and the expected results come from `oracles/precompiles.py` (unbounded integers,
//! hashlib, affine curve arithmetic written from the EIPs; nothing of revm). Every vector is run on
//! the real precompile function of every fork it applies to with gas limits cost-1, cost, cost+1.
use crate::asm::{op, Asm};
use crate::exec::*;
use crate::fw::*;
use crate::world::*;
use rayon::prelude::*;
use revm::precompile::{PrecompileSpecId, Precompiles};
use revm::primitives::{Address, Bytes, Env, PrecompileError, PrecompileErrors, SpecId, U256};
use serde::Deserialize;
use serde_json::{json, Value};

#[derive(Clone, Debug, Deserialize)]
pub struct Vector {
    pub addr: u64,
    pub forks: Vec<String>,
    pub input: String,
    pub expect: Value,
    #[serde(default)]
    pub note: String,
}
pub fn fork_id(n: &str) -> (PrecompileSpecId, SpecId) {
    match n {
        "HOMESTEAD" => (PrecompileSpecId::HOMESTEAD, SpecId::HOMESTEAD),
        "BYZANTIUM" => (PrecompileSpecId::BYZANTIUM, SpecId::BYZANTIUM),
        "ISTANBUL" => (PrecompileSpecId::ISTANBUL, SpecId::ISTANBUL),
        "BERLIN" => (PrecompileSpecId::BERLIN, SpecId::BERLIN),
        "CANCUN" => (PrecompileSpecId::CANCUN, SpecId::CANCUN),
        "PRAGUE" => (PrecompileSpecId::PRAGUE, SpecId::PRAGUE),
        _ => panic!("unknown fork {n}"),
    }
}
pub fn load_vectors(tier: Tier) -> Vec<Vector> {
    let script = verif_root().join("oracles").join("precompiles.py");
    let out = std::process::Command::new("python3").arg(&script).arg(tier.name()).output().unwrap_or_else(|e| {
        eprintln!("MACHINERY: cannot run {}: {e}", script.display());
        std::process::exit(2)
    });
    if !out.status.success() {
        eprintln!("MACHINERY: oracle script failed: {}", String::from_utf8_lossy(&out.stderr));
        std::process::exit(2)
    }
    String::from_utf8_lossy(&out.stdout)
        .lines()
        .filter(|l| !l.trim().is_empty())
        .map(|l| {
            serde_json::from_str::<Vector>(l).unwrap_or_else(|e| {
                eprintln!("MACHINERY: bad oracle line: {e}");
                std::process::exit(2)
            })
        })
        .collect()
}
pub fn call_precompile(fork: PrecompileSpecId, addr: u64, input: &Bytes, gas: u64) -> Result<Result<(u64, Bytes), PrecompileErrors>, String> {
    let pcs = Precompiles::new(fork);
    let a = revm::precompile::u64_to_address(addr);
    let Some(p) = pcs.get(&a) else { return Err(format!("no precompile at {addr:#x} in {fork:?}")) };
    let env = Env::default();
    match catch(|| p.call_ref(input, gas, &env)) {
        Ok(Ok(o)) => Ok(Ok((o.gas_used, o.bytes))),
        Ok(Err(e)) => Ok(Err(e)),
        Err(p) => Err(format!("panic: {p}")),
    }
}
fn is_oog(e: &PrecompileErrors) -> bool {
    matches!(e, PrecompileErrors::Error(PrecompileError::OutOfGas))
}

/// all checks of one vector on one fork
pub fn check_vector(v: &Vector, fork: &str, acc: &mut Acc) -> Vec<(String, String)> {
    let mut out = vec![];
    let (pid, spec) = fork_id(fork);
    let input = Bytes::from(hex::decode(&v.input).unwrap());
    let name = format!("{:#04x}", v.addr);
    let mut call = |gas: u64, acc: &mut Acc| {
        acc.transitions += 1;
        call_precompile(pid, v.addr, &input, gas)
    };
    if let Some(okv) = v.expect.get("ok").or(v.expect.get("ok_any")) {
        let exact = v.expect.get("ok").is_some();
        let gas = okv["gas"].as_u64().unwrap();
        let want_out = okv.get("out").and_then(|o| o.as_str()).map(|s| hex::decode(s).unwrap());
        let want_len = okv.get("len").and_then(|l| l.as_u64());
        for limit in [gas, gas.saturating_add(1), 30_000_000u64.max(gas)] {
            match call(limit, acc) {
                Err(e) => out.push((format!("{name}:panic-or-missing"), e)),
                Ok(Err(e)) => out.push((format!("{name}:unexpected-failure"), format!("gas limit {limit} (defined cost {gas}): failed with {e:?}"))),
                Ok(Ok((g, bytes))) => {
                    if g != gas {
                        out.push((format!("{name}:gas"), format!("charged {g}, the EIP defines {gas}")));
                    }
                    if exact && Some(bytes.to_vec()) != want_out {
                        out.push((format!("{name}:output"), format!("returned 0x{}, the EIP defines 0x{}", hex::encode(&bytes), hex::encode(want_out.clone().unwrap()))));
                    }
                    if let Some(l) = want_len {
                        if bytes.len() as u64 != l {
                            out.push((format!("{name}:output-length"), format!("returned {} bytes, expected {l}", bytes.len())));
                        }
                    }
                }
            }
            if !out.is_empty() {
                return out;
            }
        }
        if gas > 0 {
            match call(gas - 1, acc) {
                Err(e) => out.push((format!("{name}:panic-or-missing"), e)),
                Ok(Ok((g, _))) => out.push((format!("{name}:no-out-of-gas"), format!("succeeded with gas limit {} although the defined cost is {gas} (charged {g})", gas - 1))),
                Ok(Err(e)) if !is_oog(&e) => out.push((format!("{name}:wrong-error-for-out-of-gas"), format!("gas limit {} below the defined cost {gas}: reported {e:?} instead of out of gas", gas - 1))),
                Ok(Err(_)) => {}
            }
        }
        // the same through a real CALL: success flag, return data and the gas the call consumed
        if out.is_empty() && input.len() <= 1200 && gas <= 30_000_000 {
            out.extend(check_through_call(spec, v.addr, &input, gas, want_out.as_deref(), acc));
        }
    } else if v.expect.get("err").is_some() {
        match call(30_000_000, acc) {
            Err(e) => out.push((format!("{name}:panic-or-missing"), e)),
            Ok(Ok((g, bytes))) => out.push((format!("{name}:accepted-invalid-input"), format!("succeeded (gas {g}, output 0x{}) on an input the EIP rejects ({})", hex::encode(&bytes), v.note))),
            Ok(Err(PrecompileErrors::Fatal { msg })) => out.push((format!("{name}:fatal"), format!("fatal error {msg}"))),
            Ok(Err(_)) => {}
        }
    } else if let Some(g) = v.expect.get("err_or_gas_above") {
        let above = g.as_u64().unwrap_or(u64::MAX);
        let limit = v.expect.get("limit").and_then(|l| l.as_u64()).unwrap_or(10_000_000).min(above.saturating_sub(1));
        let _g = guard("precompile", {
            let v2 = v.input.clone();
            let a = v.addr;
            move || json!({"addr": a, "input": v2})
        });
        match call(limit, acc) {
            Err(e) => out.push((format!("{name}:panic-or-missing"), e)),
            Ok(Ok((g, _))) => out.push((format!("{name}:no-out-of-gas"), format!("succeeded with gas limit {limit} (charged {g}) although the defined cost exceeds {above}"))),
            Ok(Err(PrecompileErrors::Fatal { msg })) => out.push((format!("{name}:fatal"), format!("fatal error {msg}"))),
            Ok(Err(_)) => {}
        }
    }
    out
}

const CALLER_GAS: u64 = 40_000_000;
/// A: CALLDATACOPY(0,0,size); CALL(gas=word, addr, 0, 0, size, 0, 0); store flag; RETURNDATACOPY; return flag || data
fn through_call(spec: SpecId, addr: u64, input: &Bytes, gas: u64) -> Option<(bool, Vec<u8>, u64)> {
    let target = revm::precompile::u64_to_address(addr);
    let has_returndata = spec.is_enabled_in(SpecId::BYZANTIUM);
    let out_cap = 1024u64;
    // memory layout: [0..out_cap) return window, input at out_cap
    let a = Asm::new().op(op::CALLDATASIZE).push_u(0).push_u(out_cap).op(op::CALLDATACOPY);
    let a = a.push_u(out_cap).push_u(0).op(op::CALLDATASIZE).push_u(out_cap).push_u(0).push_addr(target).push(U256::from(gas)).op(op::CALL);
    // flag at out_cap+4096
    let a = a.push_u(out_cap + 4096).op(op::MSTORE);
    let a = if has_returndata { a.op(op::RETURNDATASIZE).push_u(out_cap + 4096 + 32).op(op::MSTORE) } else { a.push_u(0).push_u(out_cap + 4096 + 32).op(op::MSTORE) };
    let code = a.push_u(out_cap + 4096 + 64).push_u(0).op(op::RETURN).build();
    let mut w = base_world();
    w.insert(A, PlainAcc::contract(&code));
    let mut c = TxCase::new(spec, w);
    c.tx.data = input.clone();
    c.tx.gas_limit = CALLER_GAS;
    c.block.gas_limit = U256::from(CALLER_GAS * 2);
    let o = exec(&c);
    if o.class != Class::Success {
        return None;
    }
    let d = o.output.to_vec();
    let flag = !U256::from_be_slice(&d[(out_cap + 4096) as usize..(out_cap + 4096 + 32) as usize]).is_zero();
    let rds = U256::from_be_slice(&d[(out_cap + 4096 + 32) as usize..(out_cap + 4096 + 64) as usize]).to::<u64>();
    let data = if has_returndata { d[..(rds.min(out_cap)) as usize].to_vec() } else { d[..out_cap as usize].to_vec() };
    Some((flag, data, o.gas_used))
}
fn check_through_call(spec: SpecId, addr: u64, input: &Bytes, gas: u64, want_out: Option<&[u8]>, acc: &mut Acc) -> Vec<(String, String)> {
    let mut v = vec![];
    let name = format!("{addr:#04x}");
    acc.traces += 1;
    let Some((ok_flag, data, used_ok)) = through_call(spec, addr, input, gas) else {
        return vec![(format!("{name}:call-driver"), "driver transaction failed".into())];
    };
    if !ok_flag {
        v.push((format!("{name}:call-failed-with-exact-gas"), format!("CALL with exactly the defined cost {gas} reported failure")));
        return v;
    }
    if let Some(w) = want_out {
        let has_returndata = spec.is_enabled_in(SpecId::BYZANTIUM);
        let same = if has_returndata { data == w[..w.len().min(1024)] } else { data[..w.len().min(1024)] == w[..w.len().min(1024)] };
        if !same {
            v.push((format!("{name}:call-output"), format!("CALL returned 0x{}, the EIP defines 0x{}", hex::encode(&data[..data.len().min(80)]), hex::encode(&w[..w.len().min(80)]))));
        }
    }
    if gas > 0 {
        if let Some((flag, data, used_fail)) = through_call(spec, addr, input, gas - 1) {
            if flag {
                v.push((format!("{name}:call-no-out-of-gas"), format!("CALL with gas {} succeeded although the defined cost is {gas}", gas - 1)));
            } else {
                if spec.is_enabled_in(SpecId::BYZANTIUM) && !data.is_empty() {
                    v.push((format!("{name}:call-failure-returned-data"), "failed precompile call left return data".into()));
                }
                // a failing precompile call consumes everything it was given: the two runs differ by exactly one gas
                // in what was forwarded, and the failing one burns gas-1 while the succeeding one burns gas
                // (from Prague the EIP-7623 calldata floor can hide the difference)
                let floor = crate::gen::floor_simple(spec, input);
                if used_ok != used_fail + 1 && used_ok > floor && used_fail > floor {
                    v.push((format!("{name}:call-gas-accounting"), format!("transaction used {used_ok} gas when the call got {gas} and succeeded, {used_fail} when it got {} and failed", gas - 1)));
                }
            }
        }
    }
    v
}

/// second call after a first one on the same thread: None when the second result is the defined one
fn pair_result(first_input: &str, second: &Vector, f: &str) -> Option<String> {
    let (pid, _) = fork_id(f);
    // an unrelated call first, so that whatever the implementation remembers does not depend on what ran
    // on this thread before (replays must observe the same thing)
    let mut neutral = hex::decode(&second.input).unwrap();
    if let Some(b) = neutral.first_mut() {
        *b ^= 0xff;
    }
    let _ = call_precompile(pid, second.addr, &Bytes::from(neutral), 30_000_000);
    let _ = call_precompile(pid, second.addr, &Bytes::from(hex::decode(first_input).unwrap()), 30_000_000);
    let r = call_precompile(pid, second.addr, &Bytes::from(hex::decode(&second.input).unwrap()), 30_000_000);
    match (&r, second.expect.get("ok"), second.expect.get("err")) {
        (Ok(Ok((g, out))), Some(okv), _) => {
            let want = okv.get("out").and_then(|o| o.as_str()).map(|s| hex::decode(s).unwrap());
            if Some(*g) != okv["gas"].as_u64() || want.as_deref().map(|w| w != out.as_ref()).unwrap_or(false) {
                Some(format!("returned gas {g} output 0x{}", hex::encode(out)))
            } else {
                None
            }
        }
        (Ok(Err(e)), Some(_), _) => Some(format!("failed with {e:?}")),
        (Ok(Ok((g, out))), _, Some(_)) => Some(format!("succeeded (gas {g}, output 0x{})", hex::encode(out))),
        (Err(p), _, _) => Some(p.clone()),
        _ => None,
    }
}
pub fn replay(case: &Value) -> Vec<Violation> {
    if case.get("c24").is_some() {
        return vec![];
    }
    if let Some(p) = case.get("pair") {
        let v: Vector = serde_json::from_value(case["vector"].clone()).unwrap();
        let fork = case["fork"].as_str().unwrap();
        return match pair_result(p["first"].as_str().unwrap(), &v, fork) {
            Some(m) => vec![Violation { key: format!("{:#04x}:result-depends-on-previous-call", v.addr), msg: m, case: case.clone() }],
            None => vec![],
        };
    }
    let v: Vector = serde_json::from_value(case["vector"].clone()).unwrap();
    let fork = case["fork"].as_str().unwrap();
    let mut acc = Acc::new();
    check_vector(&v, fork, &mut acc).into_iter().map(|(k, m)| Violation { key: k, msg: m, case: case.clone() }).collect()
}

pub fn run(ctx: &Ctx) -> i32 {
    let vectors = load_vectors(ctx.tier);
    let accs: Vec<Acc> = vectors
        .par_chunks(16)
        .map(|ch| {
            let mut a = Acc::new();
            for v in ch {
                if ctx.over_budget() {
                    a.capped = true;
                    break;
                }
                for f in &v.forks {
                    let viol = check_vector(v, f, &mut a);
                    a.evaluations += 1;
                    a.states += 1;
                    let kind = v.expect.as_object().map(|o| o.keys().next().cloned().unwrap_or_default()).unwrap_or_default();
                    a.outcome(&format!("{:#04x}:{kind}", v.addr));
                    a.distinct(&(v.addr, &v.input, f));
                    a.bump(&format!("vectors_{:#04x}", v.addr), 1);
                    if a.samples.is_empty() && v.addr == 8 {
                        a.sample(|| json!({"precompile": v.addr, "fork": f, "input": v.input, "expect": v.expect, "note": v.note}));
                    }
                    for (k, m) in viol {
                        a.violation(Violation { key: k, msg: format!("precompile {:#04x} on {f} ({}), input 0x{}: {m}", v.addr, v.note, &v.input[..v.input.len().min(400)]), case: json!({"vector": {"addr": v.addr, "forks": v.forks, "input": v.input, "expect": v.expect, "note": v.note}, "fork": f}) });
                    }
                }
            }
            a
        })
        .collect();
    let mut acc = merge_all(accs);
    // back to back on one thread: for every ordered pair of vectors of one precompile whose inputs differ in
    // exactly one 32-byte word, the second call must still give its own defined result
    {
        let mut by_addr: std::collections::BTreeMap<u64, Vec<&Vector>> = Default::default();
        for v in &vectors {
            by_addr.entry(v.addr).or_default().push(v);
        }
        let mut pairs: Vec<(&Vector, &Vector)> = vec![];
        for vs in by_addr.values() {
            for (i, a) in vs.iter().enumerate() {
                for (j, b) in vs.iter().enumerate() {
                    if i == j || a.input.len() != b.input.len() || a.input.len() > 1024 {
                        continue;
                    }
                    let d = a.input.as_bytes().chunks(64).zip(b.input.as_bytes().chunks(64)).filter(|(p, q)| p != q).count();
                    if d == 1 {
                        pairs.push((*a, *b));
                    }
                }
            }
        }
        let paccs: Vec<Acc> = pairs
            .par_chunks(64)
            .map(|ch| {
                let mut a = Acc::new();
                for (first, second) in ch {
                    let Some(f) = second.forks.iter().rev().find(|f| first.forks.contains(f)) else { continue };
                    a.evaluations += 1;
                    a.states += 1;
                    a.transitions += 2;
                    a.bump("back_to_back_pairs", 1);
                    let name = format!("{:#04x}", second.addr);
                    let bad = pair_result(&first.input, second, f);
                    if let Some(m) = bad {
                        a.violation(Violation {
                            key: format!("{name}:result-depends-on-previous-call"),
                            msg: format!("precompile {name} on {f}: after a call with input 0x{}, the call with input 0x{} {m}; its own definition: {}", &first.input[..first.input.len().min(300)], &second.input[..second.input.len().min(300)], second.expect),
                            case: json!({"pair": {"first": first.input, "addr": second.addr, "fork": f}, "vector": {"addr": second.addr, "forks": second.forks, "input": second.input, "expect": second.expect, "note": second.note}, "fork": f}),
                        });
                    }
                }
                a
            })
            .collect();
        acc.merge(merge_all(paccs));
    }
    let meta = Meta {
        rule: "input lattices generated by oracles/precompiles.py: ecrecover over v x r x s boundary products, signatures made by the oracle, every truncation length; SHA-256 / RIPEMD-160 / identity for every length 0..=300 x 3 patterns; modexp over value products, declared-vs-supplied length mismatches and huge lengths (both pricings); BN254 add / mul over small and wrap-around multiples, malformed points, all truncations; BN254 and BLS12-381 pairings over scalar combinations whose products do / do not cancel; BLAKE2F over rounds x messages x counters x flags; KZG over constant polynomials (proof = infinity), every kind of corruption and byte flips; BLS12-381 G1/G2 add, MSM (k = 1, 2), encodings, subgroup checks, map-to-curve validation; each vector on every fork it applies to with gas limits cost-1, cost, cost+1, 30M, and through a real CALL with exactly the cost and one less; every ordered pair of vectors of one precompile that differ in exactly one 32-byte word also back to back on one thread; distinct = distinct (precompile, input, fork)".into(),
        assumptions: vec![
            "expected outputs come from Python integers / hashlib / affine arithmetic written from the EIPs and RFC 7693; curve constants are self-checked (on curve, order annihilates the generator; BLAKE2 F against hashlib)".into(),
            "pairing values are decided only through bilinearity (scalar products that cancel or do not); map-to-curve outputs are checked for gas, length and input validation only".into(),
        ],
        bounds: json!({"vectors": vectors.len()}),
        min_distinct: 2000,
        exhaustive: true,
        explanation: "output, gas and failure of every precompile equal the EIP definitions on the enumerated lattices; out of gas exactly when the cost exceeds the limit".into(),
    };
    finish(ctx, acc, meta, &replay)
}

// ---------------------------------------------------------------------------------------------
// C24: the two cryptographic backends agree
fn c24_inputs(tier: Tier) -> Vec<(u64, String)> {
    let mut v: Vec<(u64, String)> = load_vectors(tier).into_iter().filter(|x| x.addr == 1 || x.addr == 10).map(|x| (x.addr, x.input)).collect();
    // additional ecrecover inputs: every single-bit flip of one valid 128-byte input (1024 inputs)
    if let Some((_, base)) = v.iter().find(|(a, i)| *a == 1 && i.len() == 256).cloned() {
        let b = hex::decode(&base).unwrap();
        let step = if tier == Tier::Thorough { 1 } else { 3 };
        for bit in (0..1024).step_by(step) {
            let mut m = b.clone();
            m[bit / 8] ^= 1 << (bit % 8);
            v.push((1, hex::encode(m)));
        }
    }
    v.sort();
    v.dedup();
    // two calls in a row on one thread ("a>b": the line reports b's result after a was evaluated): every
    // ordered pair of inputs that differ in one 32-byte word only (same hash, r, s and another v; same
    // commitment and proof and another z or y), and neighbours in sorted order
    let singles = v.clone();
    let mut pairs = vec![];
    for (i, (a1, x)) in singles.iter().enumerate() {
        for (j, (a2, y)) in singles.iter().enumerate() {
            if i == j || a1 != a2 || x.len() != y.len() {
                continue;
            }
            let near = j == i + 1 || i == j + 1;
            let words_differing = x.as_bytes().chunks(64).zip(y.as_bytes().chunks(64)).filter(|(p, q)| p != q).count();
            if words_differing == 1 || (near && tier == Tier::Thorough) {
                pairs.push((*a1, format!("{x}>{y}")));
            }
        }
    }
    v.extend(pairs);
    v
}
fn c24_line(addr: u64, input: &str) -> String {
    let fork = if addr == 10 { PrecompileSpecId::CANCUN } else { PrecompileSpecId::BERLIN };
    let last = match input.split_once('>') {
        Some((first, second)) => {
            let _ = call_precompile(fork, addr, &Bytes::from(hex::decode(first).unwrap()), 1_000_000);
            second
        }
        None => input,
    };
    let r = call_precompile(fork, addr, &Bytes::from(hex::decode(last).unwrap()), 1_000_000);
    let res = match r {
        Ok(Ok((g, b))) => format!("ok {g} {}", hex::encode(b)),
        Ok(Err(PrecompileErrors::Error(_))) => "error".to_string(),
        Ok(Err(PrecompileErrors::Fatal { msg })) => format!("fatal {msg}"),
        Err(p) => format!("panic {p}"),
    };
    format!("{addr} {input} {res}")
}
pub fn backend_name() -> &'static str {
    if cfg!(feature = "alt") {
        "k256 + kzg-rs"
    } else {
        "secp256k1 (C) + c-kzg"
    }
}
/// the `alt` build dumps its results; the `main` build compares its own with the dump
pub fn run24(ctx: &Ctx) -> i32 {
    let inputs = c24_inputs(ctx.tier);
    let lines: Vec<String> = inputs.par_iter().map(|(a, i)| c24_line(*a, i)).collect();
    let dump = verif_root().join("target").join("c24-alt.txt");
    if cfg!(feature = "alt") {
        let _ = std::fs::create_dir_all(dump.parent().unwrap());
        std::fs::write(&dump, lines.join("\n")).unwrap();
        println!("C24 (alt backends {}): {} results written", backend_name(), lines.len());
        return 0;
    }
    let other = match std::fs::read_to_string(&dump) {
        Ok(s) => s,
        Err(e) => {
            eprintln!("MACHINERY: results of the alt build not found at {}: {e}", dump.display());
            return 2;
        }
    };
    let other: Vec<&str> = other.lines().collect();
    let mut acc = Acc::new();
    if other.len() != lines.len() {
        eprintln!("MACHINERY: the two builds enumerated different input sets ({} vs {})", lines.len(), other.len());
        return 2;
    }
    for (mine, theirs) in lines.iter().zip(other.iter()) {
        acc.evaluations += 1;
        acc.states += 1;
        acc.transitions += 2;
        let mut it = mine.splitn(3, ' ');
        let addr = it.next().unwrap();
        let input = it.next().unwrap();
        let res = it.next().unwrap_or("");
        acc.distinct(&(addr, res.split(' ').next().unwrap_or(""), res.len(), input.len()));
        acc.outcome(&format!("{addr}:{}", res.split(' ').next().unwrap_or("")));
        if acc.samples.len() < 3 && res.starts_with("ok") && res.len() > 12 {
            acc.samples.push(json!({"precompile": addr, "input": input, "both_backends": res}));
        }
        if mine != *theirs {
            let t = theirs.splitn(3, ' ').nth(2).unwrap_or("");
            acc.violation(Violation { key: format!("backends-differ:{addr}"), msg: format!("precompile {addr} input 0x{input}: {} gives `{res}`, the alternative backend gives `{t}`", backend_name()), case: json!({"c24": true, "addr": addr, "input": input}) });
        }
    }
    let meta = Meta {
        rule: "all ecrecover and KZG point-evaluation inputs of the C23 lattices (v x r x s boundary products, oracle-made signatures with high-s and flipped-v twins, every truncation length; constant-polynomial proofs, corruptions, byte flips) plus every 1st/3rd single-bit flip of a valid ecrecover input, and every ordered pair of those inputs that differ in exactly one 32-byte word evaluated back to back on one thread (the second result is compared), evaluated in the build with the C secp256k1 + c-kzg backends and in the build with k256 + kzg-rs; the result lines (ok + gas + output / error) must be identical; distinct = distinct (precompile, result class, lengths)".into(),
        assumptions: vec!["the `alt` harness build (revm features k256, kzg-rs, no secp256k1 / c-kzg) runs first and leaves its results in target/c24-alt.txt".into()],
        bounds: json!({"inputs": lines.len()}),
        min_distinct: 4,
        exhaustive: true,
        explanation: "identical results from both backends on the whole lattice".into(),
    };
    finish(ctx, acc, meta, &replay24)
}
pub fn replay24(case: &Value) -> Vec<Violation> {
    // a C24 replay needs both builds; the dump of the alt build is reused
    let addr: u64 = case["addr"].as_str().and_then(|s| s.parse().ok()).unwrap_or(1);
    let input = case["input"].as_str().unwrap_or("");
    let mine = c24_line(addr, input);
    let other = std::fs::read_to_string(verif_root().join("target").join("c24-alt.txt")).unwrap_or_default();
    match other.lines().find(|l| l.starts_with(&format!("{addr} {input} "))) {
        Some(t) if t != mine => vec![Violation { key: format!("backends-differ:{addr}"), msg: format!("`{mine}` vs `{t}`"), case: case.clone() }],
        _ => vec![],
    }
}
