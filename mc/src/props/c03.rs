//! C03: arithmetic / comparison / bitwise / shift opcodes compute exact 256-bit results — E3.
use crate::fw::*;
use crate::interp;
use crate::lattice::*;
use crate::props::c05::activation;
use crate::world::*;
use num_bigint::{BigInt, BigUint};
use num_traits::{One, Zero};
use rayon::prelude::*;
use revm::interpreter::{Gas, InstructionResult, Interpreter};
use revm::primitives::{SpecId, U256};
use serde_json::{json, Value};

pub const OPS: [(u8, &str, usize); 25] = [
    (0x01, "ADD", 2), (0x02, "MUL", 2), (0x03, "SUB", 2), (0x04, "DIV", 2), (0x05, "SDIV", 2), (0x06, "MOD", 2),
    (0x07, "SMOD", 2), (0x08, "ADDMOD", 3), (0x09, "MULMOD", 3), (0x0a, "EXP", 2), (0x0b, "SIGNEXTEND", 2),
    (0x10, "LT", 2), (0x11, "GT", 2), (0x12, "SLT", 2), (0x13, "SGT", 2), (0x14, "EQ", 2), (0x15, "ISZERO", 1),
    (0x16, "AND", 2), (0x17, "OR", 2), (0x18, "XOR", 2), (0x19, "NOT", 1), (0x1a, "BYTE", 2),
    (0x1b, "SHL", 2), (0x1c, "SHR", 2), (0x1d, "SAR", 2),
];

fn b2u(b: bool) -> U256 {
    if b { U256::from(1) } else { U256::ZERO }
}

/// Unbounded-integer definition. args[0] is the top of the stack.
pub fn reference(op: u8, a: &[U256]) -> U256 {
    let m = two256();
    let x = |i: usize| big(a[i]);
    let s = |i: usize| signed(a[i]);
    match op {
        0x01 => from_big(&(x(0) + x(1))),
        0x02 => from_big(&(x(0) * x(1))),
        0x03 => from_signed(&(BigInt::from(x(0)) - BigInt::from(x(1)))),
        0x04 => if x(1).is_zero() { U256::ZERO } else { from_big(&(x(0) / x(1))) },
        0x05 => if x(1).is_zero() { U256::ZERO } else { from_signed(&(s(0) / s(1))) },
        0x06 => if x(1).is_zero() { U256::ZERO } else { from_big(&(x(0) % x(1))) },
        0x07 => if x(1).is_zero() { U256::ZERO } else { from_signed(&(s(0) % s(1))) },
        0x08 => if x(2).is_zero() { U256::ZERO } else { from_big(&((x(0) + x(1)) % x(2))) },
        0x09 => if x(2).is_zero() { U256::ZERO } else { from_big(&((x(0) * x(1)) % x(2))) },
        0x0a => from_big(&x(0).modpow(&x(1), &m)),
        0x0b => {
            if x(0) < BigUint::from(31u32) {
                let b: u32 = a[0].to::<u32>();
                let bits = 8 * (b + 1);
                let low = x(1) % (BigUint::one() << bits);
                let neg = (&low >> (bits - 1)) == BigUint::one();
                if neg {
                    from_big(&(&m - (BigUint::one() << bits) + low))
                } else {
                    from_big(&low)
                }
            } else {
                a[1]
            }
        }
        0x10 => b2u(x(0) < x(1)),
        0x11 => b2u(x(0) > x(1)),
        0x12 => b2u(s(0) < s(1)),
        0x13 => b2u(s(0) > s(1)),
        0x14 => b2u(x(0) == x(1)),
        0x15 => b2u(x(0).is_zero()),
        0x16 => a[0] & a[1],
        0x17 => a[0] | a[1],
        0x18 => a[0] ^ a[1],
        0x19 => from_big(&(&m - BigUint::one() - x(0))),
        0x1a => {
            if x(0) < BigUint::from(32u32) {
                let i: u32 = a[0].to::<u32>();
                from_big(&((x(1) >> (8 * (31 - i))) % BigUint::from(256u32)))
            } else {
                U256::ZERO
            }
        }
        0x1b => if x(0) >= BigUint::from(256u32) { U256::ZERO } else { from_big(&(x(1) << a[0].to::<u32>())) },
        0x1c => if x(0) >= BigUint::from(256u32) { U256::ZERO } else { from_big(&(x(1) >> a[0].to::<u32>())) },
        0x1d => {
            let v = s(1);
            if x(0) >= BigUint::from(256u32) {
                if v < BigInt::zero() { U256::MAX } else { U256::ZERO }
            } else {
                // floor division by 2^shift (arithmetic shift)
                let d = BigInt::one() << a[0].to::<u32>();
                let mut q = &v / &d;
                if (&v % &d) < BigInt::zero() {
                    q -= 1;
                }
                from_signed(&q)
            }
        }
        _ => unreachable!(),
    }
}
// bitwise ops on U256 (&,|,^) are used directly above: they are limb-wise and carry no arithmetic.

pub fn gas_cost(op: u8, spec: SpecId, a: &[U256]) -> u64 {
    match op {
        0x01 | 0x03 | 0x10..=0x1d => 3,
        0x02 | 0x04 | 0x05 | 0x06 | 0x07 | 0x0b => 5,
        0x08 | 0x09 => 8,
        0x0a => {
            let bytes = (a[1].bit_len() as u64 + 7) / 8;
            let per = if spec.is_enabled_in(SpecId::SPURIOUS_DRAGON) { 50 } else { 10 };
            10 + per * bytes
        }
        _ => unreachable!(),
    }
}

pub struct Runner {
    it: Interpreter,
    tbl: revm::interpreter::opcode::InstructionTable<revm::interpreter::DummyHost>,
    host: revm::interpreter::DummyHost,
    spec: SpecId,
}
impl Runner {
    pub fn new(spec: SpecId) -> Self {
        Runner { it: interp::new_interp(&[0x00], 1 << 40), tbl: interp::table(spec), host: interp::host(), spec }
    }
    /// returns None if the case agrees, Some((key,msg)) otherwise
    pub fn check(&mut self, op: u8, name: &str, args: &[U256]) -> Option<(String, String)> {
        let sentinel = U256::from(0xdeadbeefu64);
        let it = &mut self.it;
        it.instruction_pointer = it.bytecode.as_ptr();
        it.instruction_result = InstructionResult::Continue;
        it.stack.data_mut().clear();
        it.gas = Gas::new(1 << 40);
        it.stack.push(sentinel).unwrap();
        for a in args.iter().rev() {
            it.stack.push(*a).unwrap();
        }
        (self.tbl[op as usize])(it, &mut self.host);
        let exp = reference(op, args);
        let g = gas_cost(op, self.spec, args);
        if it.instruction_result != InstructionResult::Continue {
            return Some((format!("{name}:result"), format!("{name}{args:?} ended with {:?}", it.instruction_result)));
        }
        let data = it.stack.data();
        if data.len() != 2 || data[0] != sentinel {
            return Some((format!("{name}:stack-effect"), format!("{name}{args:?} left stack {data:?}")));
        }
        if data[1] != exp {
            return Some((format!("{name}:value"), format!("{name}{args:?} = {} but unbounded-integer definition gives {}", data[1], exp)));
        }
        if it.gas.spent() != g {
            return Some((format!("{name}:gas"), format!("{name}{args:?} charged {} in {:?}, fork defines {}", it.gas.spent(), self.spec, g)));
        }
        None
    }
}

fn case_json(spec: SpecId, op: u8, args: &[U256]) -> Value {
    json!({"spec": spec_name(spec), "opcode": op, "args": args})
}
pub fn replay(case: &Value) -> Vec<Violation> {
    let spec = spec_from_name(case["spec"].as_str().unwrap());
    let op = case["opcode"].as_u64().unwrap() as u8;
    let args: Vec<U256> = serde_json::from_value(case["args"].clone()).unwrap();
    let name = OPS.iter().find(|o| o.0 == op).unwrap().1;
    let mut r = Runner::new(spec);
    match catch(|| r.check(op, name, &args)) {
        Ok(None) => vec![],
        Ok(Some((k, m))) => vec![Violation { key: k, msg: m, case: case.clone() }],
        Err(p) => vec![Violation { key: format!("{name}:panic"), msg: p, case: case.clone() }],
    }
}

fn arg_sets(op: u8, arity: usize, full: bool) -> Vec<Vec<U256>> {
    let w = if full { words() } else { words_small() };
    let ws = words_small();
    let mut out = vec![];
    match arity {
        1 => {
            for a in &w {
                out.push(vec![*a]);
            }
        }
        2 => {
            for a in &w {
                for b in &w {
                    out.push(vec![*a, *b]);
                }
            }
            // complete small ranges for the index / shift operand (top of stack)
            if matches!(op, 0x0b | 0x1a | 0x1b | 0x1c | 0x1d) {
                let range = if matches!(op, 0x0b | 0x1a) { 0..=40u64 } else { 0..=300u64 };
                for i in range {
                    for b in &ws {
                        out.push(vec![U256::from(i), *b]);
                    }
                }
            }
        }
        3 => {
            for a in &ws {
                for b in &ws {
                    for c in &ws {
                        out.push(vec![*a, *b, *c]);
                    }
                }
            }
        }
        _ => unreachable!(),
    }
    out
}

pub fn run(ctx: &Ctx) -> i32 {
    let specs = all_specs();
    // jobs: (spec, op, full lattice?) — full lattice on the newest spec, reduced lattice on every spec
    let mut jobs = vec![];
    for (op, name, arity) in OPS {
        jobs.push((SpecId::CANCUN, op, name, arity, true));
        for s in &specs {
            if s.is_enabled_in(activation(op).unwrap()) {
                jobs.push((*s, op, name, arity, ctx.tier == Tier::Thorough && arity < 3));
            }
        }
    }
    let accs: Vec<Acc> = jobs
        .par_iter()
        .map(|(spec, op, name, arity, full)| {
            let mut a = Acc::new();
            let mut r = Runner::new(*spec);
            let sets = arg_sets(*op, *arity, *full);
            for args in &sets {
                a.evaluations += 1;
                a.transitions += 1;
                match catch(|| r.check(*op, name, args)) {
                    Ok(None) => {}
                    Ok(Some((k, m))) => a.violation(Violation { key: k, msg: m, case: case_json(*spec, *op, args) }),
                    Err(p) => {
                        a.violation(Violation { key: format!("{name}:panic"), msg: p, case: case_json(*spec, *op, args) });
                        r = Runner::new(*spec);
                    }
                }
                if *full && *spec == SpecId::CANCUN {
                    a.distinct(&(op, reference(*op, args)));
                }
            }
            a.states += sets.len() as u64;
            a.outcome(name);
            if *op == 0x05 && *full {
                a.sample(|| json!({"spec":"CANCUN","opcode":"SDIV","args":[U256::from(1) << 255, U256::MAX],"expected": reference(0x05, &[U256::from(1) << 255, U256::MAX])}));
            }
            a
        })
        .collect();
    let acc = merge_all(accs);
    let meta = Meta {
        rule: format!("25 opcodes x full {}-word lattice pairs (triples over the {}-word lattice, complete shift 0..=300 and byte-index 0..=40 ranges) on CANCUN, reduced lattice on every SpecId where the opcode exists (full lattice in thorough); distinct = distinct (opcode, result) on the full lattice", words().len(), words_small().len()),
        assumptions: vec!["reference = num-bigint unbounded integers; AND/OR/XOR use ruint limb operations directly (no arithmetic involved)".into(), "instruction functions are invoked through the real per-spec instruction table".into()],
        bounds: json!({"lattice": words().len(), "small_lattice": words_small().len(), "specs": specs.len()}),
        min_distinct: 1000,
        exhaustive: true,
        explanation: "value, stack effect and gas compared for every case".into(),
    };
    finish(ctx, acc, meta, &replay)
}
