//! C02: a transaction is rejected iff the spec rejects it, and rejection has no effect — E3 + E1.
//!
//! (a) full product of field boundary values x sender states x specs through `Evm::transact`; oracle =
//!     a validity predicate written from the EIPs (accept / reject only; the error class is not compared).
//! (b) histories of rejected and accepted transactions on one Evm: the accepted ones and the final
//!     database must be what they are when the rejected ones are never submitted.
use crate::exec::*;
use crate::fw::*;
use crate::gen::{floor_simple, intrinsic_simple, BLOB_HASH};
use crate::props::c32::ref_fake_exp;
use crate::world::*;
use num_traits::ToPrimitive;
use rayon::prelude::*;
use revm::db::{CacheDB, EmptyDB};
use revm::primitives::{Address, Bytes, EVMError, SpecId, B256, U256};
use revm::{DatabaseCommit, Evm};
use serde::{Deserialize, Serialize};
use serde_json::{json, Value};

const BLOCK_GAS_LIMIT: u64 = 10_000_000;
const EXCESS_BLOB_GAS: u64 = 10_000_000;
const TO: Address = A;

#[derive(Clone, Copy, Debug, PartialEq, Eq, Hash, Serialize, Deserialize)]
pub enum Shape {
    Call,
    CallData40,
    Create,
    CreateMaxInit,
    CreateMaxInitPlus1,
    AccessList,
    BlobOk,
    BlobFeeBelowPrice,
    BlobNoHashes,
    BlobTooMany,
    BlobMaxCount,
    BlobVersion2,
    BlobCreate,
    HashesWithoutFee,
    AuthOne,
    AuthEmpty,
    AuthCreate,
    AuthWithBlob,
    /// two authorization tuples, the second with an unrecoverable signer: both are charged
    AuthTwoOneUnrecoverable,
}
pub const SHAPES: [Shape; 19] = [
    Shape::Call,
    Shape::CallData40,
    Shape::Create,
    Shape::CreateMaxInit,
    Shape::CreateMaxInitPlus1,
    Shape::AccessList,
    Shape::BlobOk,
    Shape::BlobFeeBelowPrice,
    Shape::BlobNoHashes,
    Shape::BlobTooMany,
    Shape::BlobMaxCount,
    Shape::BlobVersion2,
    Shape::BlobCreate,
    Shape::HashesWithoutFee,
    Shape::AuthOne,
    Shape::AuthEmpty,
    Shape::AuthCreate,
    Shape::AuthWithBlob,
    Shape::AuthTwoOneUnrecoverable,
];
#[derive(Clone, Copy, Debug, PartialEq, Eq, Hash, Serialize, Deserialize)]
pub enum GasSel {
    IntrinsicMinus1,
    Intrinsic,
    FloorMinus1,
    Floor,
    BlockLimit,
    BlockLimitPlus1,
}
#[derive(Clone, Copy, Debug, PartialEq, Eq, Hash, Serialize, Deserialize)]
pub enum NonceSel {
    /// (sender nonce, tx nonce)
    Unset5,
    Low,
    Equal,
    High,
    UnsetMax,
    MaxLow,
    MaxEqual,
}
#[derive(Clone, Copy, Debug, PartialEq, Eq, Hash, Serialize, Deserialize)]
pub enum SenderCode {
    None,
    Legacy,
    Designator,
}
#[derive(Clone, Debug, Serialize, Deserialize)]
pub struct Case02 {
    pub spec: String,
    pub shape: Shape,
    pub chain: u8, // 0 none, 1 right, 2 wrong
    pub nonce: NonceSel,
    pub gas: GasSel,
    pub basefee: u8,
    pub max_fee: u8,
    pub priority: Option<u8>,
    pub value: u8,
    /// sender balance relative to the maximum cost: 0 = cost-1, 1 = cost, 2 = cost+1
    pub balance: u8,
    pub code: SenderCode,
}

fn blob_price(spec: SpecId) -> u128 {
    let frac = if spec.is_enabled_in(SpecId::PRAGUE) { 5007716u64 } else { 3338477 };
    ref_fake_exp(1, EXCESS_BLOB_GAS, frac).unwrap().to_u128().unwrap()
}
fn max_blobs(spec: SpecId) -> usize {
    if spec.is_enabled_in(SpecId::PRAGUE) {
        9
    } else {
        6
    }
}

/// the explicit transaction and world of a case
pub fn build(c: &Case02) -> (TxCase, bool, Vec<String>) {
    let spec = spec_from_name(&c.spec);
    let mut t = TxCase::new(spec, Plain::new());
    t.block.gas_limit = U256::from(BLOCK_GAS_LIMIT);
    t.block.basefee = U256::from(c.basefee);
    t.block.excess_blob_gas = EXCESS_BLOB_GAS;
    t.tx.to = Some(TO);
    t.tx.gas_price = U256::from(c.max_fee);
    t.tx.priority_fee = c.priority.map(U256::from);
    t.tx.value = U256::from(c.value);
    t.tx.chain_id = match c.chain {
        0 => None,
        1 => Some(1),
        _ => Some(2),
    };
    let price = blob_price(spec);
    let hashes = |n: usize, ver: u8| -> Vec<B256> {
        (0..n)
            .map(|i| {
                let mut h = BLOB_HASH;
                h.0[0] = ver;
                h.0[31] = i as u8;
                h
            })
            .collect()
    };
    let one_auth = vec![AuthSpec { chain_id: 1, address: BOK_ADDR, nonce: 0, authority: Some(AUTH) }];
    match c.shape {
        Shape::Call => {}
        Shape::CallData40 => t.tx.data = Bytes::from(vec![0x11u8; 40]),
        Shape::Create => {
            t.tx.to = None;
            t.tx.data = Bytes::from(vec![0x00u8]);
        }
        Shape::CreateMaxInit => {
            t.tx.to = None;
            t.tx.data = Bytes::from(vec![0u8; 49152]);
        }
        Shape::CreateMaxInitPlus1 => {
            t.tx.to = None;
            t.tx.data = Bytes::from(vec![0u8; 49153]);
        }
        Shape::AccessList => t.tx.access_list = vec![(TO, vec![U256::from(1)])],
        Shape::BlobOk => {
            t.tx.blob_hashes = hashes(1, 1);
            t.tx.max_fee_per_blob_gas = Some(U256::from(price));
        }
        Shape::BlobFeeBelowPrice => {
            t.tx.blob_hashes = hashes(1, 1);
            t.tx.max_fee_per_blob_gas = Some(U256::from(price - 1));
        }
        Shape::BlobNoHashes => t.tx.max_fee_per_blob_gas = Some(U256::from(price)),
        Shape::BlobTooMany => {
            t.tx.blob_hashes = hashes(max_blobs(spec) + 1, 1);
            t.tx.max_fee_per_blob_gas = Some(U256::from(price));
        }
        Shape::BlobMaxCount => {
            t.tx.blob_hashes = hashes(max_blobs(spec), 1);
            t.tx.max_fee_per_blob_gas = Some(U256::from(price));
        }
        Shape::BlobVersion2 => {
            t.tx.blob_hashes = hashes(1, 2);
            t.tx.max_fee_per_blob_gas = Some(U256::from(price));
        }
        Shape::BlobCreate => {
            t.tx.to = None;
            t.tx.data = Bytes::from(vec![0x00u8]);
            t.tx.blob_hashes = hashes(1, 1);
            t.tx.max_fee_per_blob_gas = Some(U256::from(price));
        }
        Shape::HashesWithoutFee => t.tx.blob_hashes = hashes(1, 1),
        Shape::AuthOne => t.tx.auth_list = Some(one_auth.clone()),
        Shape::AuthEmpty => t.tx.auth_list = Some(vec![]),
        Shape::AuthCreate => {
            t.tx.to = None;
            t.tx.data = Bytes::from(vec![0x00u8]);
            t.tx.auth_list = Some(one_auth.clone());
        }
        Shape::AuthTwoOneUnrecoverable => {
            let mut l = one_auth.clone();
            l.push(AuthSpec { chain_id: 1, address: BOK_ADDR, nonce: 0, authority: None });
            t.tx.auth_list = Some(l);
        }
        Shape::AuthWithBlob => {
            t.tx.auth_list = Some(one_auth.clone());
            t.tx.blob_hashes = hashes(1, 1);
            t.tx.max_fee_per_blob_gas = Some(U256::from(price));
        }
    }
    let create = t.tx.to.is_none();
    let keys: u64 = t.tx.access_list.iter().map(|(_, k)| k.len() as u64).sum();
    let auths = t.tx.auth_list.as_ref().map(|l| l.len() as u64).unwrap_or(0);
    let intrinsic = intrinsic_simple(spec, &t.tx.data, create, t.tx.access_list.len() as u64, keys, auths);
    let floor = floor_simple(spec, &t.tx.data).max(intrinsic);
    t.tx.gas_limit = match c.gas {
        GasSel::IntrinsicMinus1 => intrinsic - 1,
        GasSel::Intrinsic => intrinsic,
        GasSel::FloorMinus1 => floor - 1,
        GasSel::Floor => floor,
        GasSel::BlockLimit => BLOCK_GAS_LIMIT,
        GasSel::BlockLimitPlus1 => BLOCK_GAS_LIMIT + 1,
    };
    let (sender_nonce, tx_nonce) = match c.nonce {
        NonceSel::Unset5 => (5u64, None),
        NonceSel::Low => (5, Some(4)),
        NonceSel::Equal => (5, Some(5)),
        NonceSel::High => (5, Some(6)),
        NonceSel::UnsetMax => (u64::MAX, None),
        NonceSel::MaxLow => (u64::MAX, Some(u64::MAX - 1)),
        NonceSel::MaxEqual => (u64::MAX, Some(u64::MAX)),
    };
    t.tx.nonce = tx_nonce;
    // maximum cost the sender must be able to pay
    let blob_cost = if spec.is_enabled_in(SpecId::CANCUN) {
        t.tx.max_fee_per_blob_gas.unwrap_or_default() * U256::from(131072u64 * t.tx.blob_hashes.len() as u64)
    } else {
        U256::ZERO
    };
    let cost = U256::from(t.tx.gas_limit) * U256::from(c.max_fee) + U256::from(c.value) + blob_cost;
    let balance = match c.balance {
        0 => cost.saturating_sub(U256::from(1)),
        1 => cost,
        _ => cost + U256::from(1),
    };
    let code: Vec<u8> = match c.code {
        SenderCode::None => vec![],
        SenderCode::Legacy => vec![0x00],
        SenderCode::Designator => {
            let mut d = vec![0xef, 0x01, 0x00];
            d.extend_from_slice(BOK_ADDR.as_slice());
            d
        }
    };
    let mut w = Plain::new();
    w.insert(SENDER, PlainAcc { balance, nonce: sender_nonce, code: code.into(), ..Default::default() });
    w.insert(TO, PlainAcc::contract(&[0x00]));
    w.insert(BOK_ADDR, PlainAcc::contract(&[0x00]));
    w.insert(AUTH, PlainAcc::eoa(1));
    t.world = w;

    // ---------------- the validity rules of the hardfork ----------------
    let mut why = vec![];
    let has = |s: SpecId| spec.is_enabled_in(s);
    if c.chain == 2 {
        why.push("chain id differs".to_string());
    }
    if t.tx.gas_limit > BLOCK_GAS_LIMIT {
        why.push("gas limit above the block gas limit".into());
    }
    if t.tx.gas_limit < intrinsic {
        why.push("gas limit below the intrinsic gas".into());
    }
    if has(SpecId::PRAGUE) && t.tx.gas_limit < floor {
        why.push("gas limit below the EIP-7623 floor".into());
    }
    if has(SpecId::LONDON) {
        if c.max_fee < c.basefee {
            why.push("max fee below the base fee".into());
        }
        if let Some(p) = c.priority {
            if p > c.max_fee {
                why.push("priority fee above the max fee".into());
            }
        }
    } else if c.priority.is_some() {
        why.push("EIP-1559 transaction before London".into());
    }
    if c.balance == 0 && !cost.is_zero() {
        why.push("balance below the maximum cost".into());
    }
    match c.code {
        SenderCode::None => {}
        SenderCode::Legacy => why.push("sender has code (EIP-3607)".into()),
        SenderCode::Designator => {
            if !has(SpecId::PRAGUE) {
                why.push("sender has designator code before Prague".into());
            }
        }
    }
    if let Some(n) = tx_nonce {
        if n != sender_nonce {
            why.push("nonce mismatch".into());
        }
    }
    if sender_nonce == u64::MAX {
        why.push("sender nonce is 2^64-1 (EIP-2681)".into());
    }
    if has(SpecId::SHANGHAI) && create && t.tx.data.len() > 49152 {
        why.push("init code above the EIP-3860 limit".into());
    }
    if !has(SpecId::BERLIN) && !t.tx.access_list.is_empty() {
        why.push("access list before Berlin".into());
    }
    let blobby = t.tx.max_fee_per_blob_gas.is_some() || !t.tx.blob_hashes.is_empty();
    if !has(SpecId::CANCUN) {
        if blobby {
            why.push("blob fields before Cancun".into());
        }
    } else if let Some(mf) = t.tx.max_fee_per_blob_gas {
        if t.tx.blob_hashes.is_empty() {
            why.push("blob transaction without blobs".into());
        }
        if create {
            why.push("blob transaction that creates".into());
        }
        if t.tx.blob_hashes.iter().any(|h| h.0[0] != 1) {
            why.push("blob hash version".into());
        }
        if t.tx.blob_hashes.len() > max_blobs(spec) {
            why.push("too many blobs".into());
        }
        if mf < U256::from(price) {
            why.push("max blob fee below the blob price".into());
        }
    } else if !t.tx.blob_hashes.is_empty() {
        why.push("blob hashes without a max blob fee".into());
    }
    if let Some(l) = &t.tx.auth_list {
        if !has(SpecId::PRAGUE) {
            why.push("authorization list before Prague".into());
        } else {
            if l.is_empty() {
                why.push("empty authorization list".into());
            }
            if create {
                why.push("set-code transaction without a destination".into());
            }
            if blobby {
                why.push("set-code transaction with blob fields".into());
            }
        }
    }
    (t, !why.is_empty(), why)
}
const BOK_ADDR: Address = crate::macros::BOK;

type RunnerDb = CacheDB<EmptyDB>;
fn verdict(evm: &mut Evm<'static, (), RunnerDb>, t: &TxCase) -> Result<bool, String> {
    *evm.db_mut() = to_cachedb(&t.world);
    evm.context.evm.inner.env = t.env();
    match catch(|| evm.transact()) {
        Ok(Ok(_)) => Ok(false),
        Ok(Err(EVMError::Transaction(_))) => Ok(true),
        Ok(Err(e)) => Err(format!("{e:?}")),
        Err(p) => Err(format!("panic: {p}")),
    }
}
fn new_evm(spec: SpecId) -> Evm<'static, (), RunnerDb> {
    Evm::builder().with_db(CacheDB::new(EmptyDB::default())).with_spec_id(spec).build()
}

pub fn check(c: &Case02, evm: &mut Evm<'static, (), RunnerDb>) -> (Vec<(String, String)>, bool) {
    let (t, expect_reject, why) = build(c);
    let mut v = vec![];
    match verdict(evm, &t) {
        Err(e) => v.push(("no-verdict".into(), e)),
        Ok(rejected) => {
            if rejected != expect_reject {
                let key = if expect_reject {
                    // classify by the (single) broken rule when there is exactly one
                    let mut rules: Vec<String> = why.iter().map(|w| w.split(|ch: char| ch == '(').next().unwrap().trim().replace(' ', "-")).collect();
                    rules.sort();
                    format!("accepted-invalid:{}", rules.join("+"))
                } else {
                    "rejected-valid".to_string()
                };
                let reason = match evm.transact() {
                    Err(e) => format!("{e:?}"),
                    Ok(r) => format!("{:?}", r.result),
                };
                v.push((key, format!("revm {} it ({reason}); rules broken: {:?}", if rejected { "rejected" } else { "accepted" }, why)));
            }
        }
    }
    (v, expect_reject)
}

/// the verdict on `c` after `prev` ran on the same Evm differs from the verdict on a fresh Evm
fn check_pair(prev: &Case02, c: &Case02) -> Vec<(String, String)> {
    let spec = spec_from_name(&c.spec);
    let mut reused = new_evm(spec);
    let _ = verdict(&mut reused, &build(prev).0);
    let after = verdict(&mut reused, &build(c).0);
    let fresh = verdict(&mut new_evm(spec), &build(c).0);
    if after != fresh {
        vec![("earlier-transaction-changes-verdict".into(), format!("on one Evm, after {prev:?}, the transaction {c:?} is {:?} (rejected?); on a fresh Evm it is {:?}", after, fresh))]
    } else {
        vec![]
    }
}
pub fn replay(case: &Value) -> Vec<Violation> {
    if case.get("history").is_some() {
        return replay_b(case);
    }
    if case.get("pair").is_some() {
        let p: Vec<Case02> = serde_json::from_value(case["pair"].clone()).unwrap();
        return check_pair(&p[0], &p[1]).into_iter().map(|(k, m)| Violation { key: k, msg: m, case: case.clone() }).collect();
    }
    let c: Case02 = serde_json::from_value(case["c"].clone()).unwrap();
    let mut evm = new_evm(spec_from_name(&c.spec));
    check(&c, &mut evm).0.into_iter().map(|(k, m)| Violation { key: k, msg: m, case: case.clone() }).collect()
}

// ---------------------------------------------------------------------------------------------
// (b) rejection has no effect
#[derive(Clone, Copy, Debug, PartialEq, Serialize, Deserialize)]
pub enum HTx {
    OkTransfer,
    OkStore,
    OkCreate,
    BadNonce,
    NoFunds,
    GasBelowIntrinsic,
    BadChain,
    SenderWithCode,
    Preverify,
}
const HMENU: [HTx; 9] = [HTx::OkTransfer, HTx::OkStore, HTx::OkCreate, HTx::BadNonce, HTx::NoFunds, HTx::GasBelowIntrinsic, HTx::BadChain, HTx::SenderWithCode, HTx::Preverify];
fn htx_case(spec: SpecId, h: HTx) -> TxCase {
    let mut t = TxCase::new(spec, Plain::new());
    t.tx.gas_limit = 200_000;
    t.tx.gas_price = U256::from(3);
    if spec.is_enabled_in(SpecId::LONDON) {
        t.block.basefee = U256::from(2);
    }
    match h {
        HTx::OkTransfer | HTx::Preverify => {
            t.tx.to = Some(EMPTY);
            t.tx.value = U256::from(5);
        }
        HTx::OkStore => t.tx.to = Some(A),
        HTx::OkCreate => {
            t.tx.to = None;
            t.tx.data = crate::macros::Init::Write.code().into();
        }
        HTx::BadNonce => {
            t.tx.to = Some(A);
            t.tx.nonce = Some(77);
        }
        HTx::NoFunds => {
            t.tx.to = Some(A);
            t.tx.caller = crate::props::c31::POOR;
        }
        HTx::GasBelowIntrinsic => {
            t.tx.to = Some(A);
            t.tx.gas_limit = 20_999;
        }
        HTx::BadChain => {
            t.tx.to = Some(A);
            t.tx.chain_id = Some(9);
        }
        HTx::SenderWithCode => {
            t.tx.to = Some(A);
            t.tx.caller = crate::macros::BOK;
        }
    }
    t
}
fn b_world() -> Plain {
    let mut w = crate::macros::std_world();
    // A: counter in slot 0 and a log
    let code = crate::asm::Asm::new().push_u(1).push_u(0).op(crate::asm::op::SLOAD).op(crate::asm::op::ADD).push_u(0).op(crate::asm::op::SSTORE).op(crate::asm::op::STOP).build();
    w.insert(A, PlainAcc::contract(&code));
    w.insert(crate::props::c31::POOR, PlainAcc::eoa(1000));
    w
}
fn db_render(db: &CacheDB<EmptyDB>, w: &Plain) -> String {
    use revm::DatabaseRef;
    let mut s = String::new();
    let mut addrs: Vec<Address> = w.keys().cloned().collect();
    addrs.extend([EMPTY, COINBASE, SENDER.create(0), SENDER.create(1), SENDER.create(2)]);
    addrs.sort();
    addrs.dedup();
    for a in addrs {
        let i = db.basic_ref(a).unwrap();
        s += &format!("{a}:{:?};", i.as_ref().filter(|i| !i.is_empty() || w.contains_key(&a)).map(|i| (i.balance, i.nonce, i.code_hash)));
        for k in 0..2u64 {
            s += &format!("{},", db.storage_ref(a, U256::from(k)).unwrap());
        }
    }
    s
}
fn run_history(spec: SpecId, h: &[HTx], skip_rejected: bool) -> Result<(Vec<String>, String), String> {
    let w = b_world();
    let mut evm = Evm::builder().with_db(to_cachedb(&w)).with_spec_id(spec).build();
    let mut results = vec![];
    for x in h {
        let t = htx_case(spec, *x);
        let rejected_kind = matches!(x, HTx::BadNonce | HTx::NoFunds | HTx::GasBelowIntrinsic | HTx::BadChain | HTx::SenderWithCode);
        if skip_rejected && (rejected_kind || *x == HTx::Preverify) {
            continue;
        }
        evm.context.evm.inner.env = t.env();
        if *x == HTx::Preverify {
            let _ = catch(|| evm.preverify_transaction()).map_err(|p| format!("panic: {p}"))?;
            continue;
        }
        match catch(|| evm.transact()).map_err(|p| format!("panic: {p}"))? {
            Ok(rs) => {
                if rejected_kind {
                    return Err(format!("{x:?} was expected to be rejected but executed"));
                }
                results.push(format!("{:?}", rs.result));
                evm.db_mut().commit(rs.state);
            }
            Err(EVMError::Transaction(_)) if rejected_kind => {}
            Err(e) => return Err(format!("{x:?}: unexpected {e:?}")),
        }
    }
    let r = db_render(evm.db(), &w);
    Ok((results, r))
}
fn check_b(spec: SpecId, h: &[HTx]) -> Vec<(String, String)> {
    let with = run_history(spec, h, false);
    let without = run_history(spec, h, true);
    match (with, without) {
        (Ok(a), Ok(b)) => {
            if a.0 != b.0 {
                vec![("rejection-changes-later-results".into(), format!("results of the accepted transactions differ: {:?} vs {:?} when the rejected ones are never submitted", a.0, b.0))]
            } else if a.1 != b.1 {
                vec![("rejection-changes-database".into(), format!("database answers differ {}", first_diff(&a.1, &b.1)))]
            } else {
                vec![]
            }
        }
        (Err(e), _) | (_, Err(e)) => vec![("history-driver".into(), e)],
    }
}
fn replay_b(case: &Value) -> Vec<Violation> {
    let h: Vec<HTx> = serde_json::from_value(case["history"].clone()).unwrap();
    let spec = spec_from_name(case["spec"].as_str().unwrap());
    check_b(spec, &h).into_iter().map(|(k, m)| Violation { key: k, msg: m, case: case.clone() }).collect()
}

pub fn run(ctx: &Ctx) -> i32 {
    let specs: Vec<SpecId> = match ctx.tier {
        Tier::Quick => vec![SpecId::FRONTIER, SpecId::SPURIOUS_DRAGON, SpecId::BERLIN, SpecId::LONDON, SpecId::SHANGHAI, SpecId::CANCUN, SpecId::PRAGUE],
        Tier::Thorough => MAINNET_SPECS.to_vec(),
    };
    // fee triples: (base fee, max fee, priority fee)
    let mut fees: Vec<(u8, u8, Option<u8>)> = vec![];
    for b in 0..3u8 {
        for m in 0..3u8 {
            fees.push((b, m, None));
            for p in 0..3u8 {
                if ctx.tier == Tier::Thorough || (p + b + m) % 2 == 0 || p > m {
                    fees.push((b, m, Some(p)));
                }
            }
        }
    }
    let nonces = [NonceSel::Unset5, NonceSel::Low, NonceSel::Equal, NonceSel::High, NonceSel::UnsetMax, NonceSel::MaxLow, NonceSel::MaxEqual];
    let gases = [GasSel::IntrinsicMinus1, GasSel::Intrinsic, GasSel::FloorMinus1, GasSel::Floor, GasSel::BlockLimit, GasSel::BlockLimitPlus1];
    let codes = [SenderCode::None, SenderCode::Legacy, SenderCode::Designator];
    // shards: (spec, shape, chain, nonce)
    let mut shards = vec![];
    for s in &specs {
        for sh in SHAPES {
            for chain in 0..3u8 {
                for n in nonces {
                    shards.push((*s, sh, chain, n));
                }
            }
        }
    }
    let rot = (ctx.seed as usize) % shards.len();
    shards.rotate_left(rot);
    let accs: Vec<Acc> = shards
        .par_iter()
        .map(|(s, sh, chain, n)| {
            let mut a = Acc::new();
            let mut evm = new_evm(*s);
            let mut prev: Option<Case02> = None;
            for g in gases {
                if ctx.over_budget() {
                    a.capped = true;
                    break;
                }
                for (b, m, p) in &fees {
                    for value in 0..2u8 {
                        for bal in 0..3u8 {
                            for code in codes {
                                let c = Case02 { spec: spec_name(*s), shape: *sh, chain: *chain, nonce: *n, gas: g, basefee: *b, max_fee: *m, priority: *p, value, balance: bal, code };
                                let (v, expect) = check(&c, &mut evm);
                                a.evaluations += 1;
                                a.states += 1;
                                a.transitions += 1;
                                a.outcome(if expect { "spec-rejects" } else { "spec-accepts" });
                                a.distinct(&(s, sh, chain, n, g, expect, code, bal));
                                if a.samples.is_empty() && !expect && *sh != Shape::Call {
                                    a.sample(|| json!({"case": c, "verdict": "accepted"}));
                                }
                                if !v.is_empty() {
                                    // is it this transaction, or what an earlier one left behind on the reused Evm?
                                    let alone = check(&c, &mut new_evm(*s)).0;
                                    if alone.is_empty() {
                                        if let Some(p) = &prev {
                                            for (k, msg) in check_pair(p, &c) {
                                                a.violation(Violation { key: k, msg, case: json!({"pair": [p, c]}) });
                                            }
                                        }
                                        evm = new_evm(*s);
                                        prev = Some(c);
                                        continue;
                                    }
                                }
                                for (k, msg) in v {
                                    a.outcome(&format!("DISAGREE {k} @{}", c.spec));
                                    a.violation(Violation { key: k, msg: format!("{c:?}: {msg}"), case: json!({"c": c}) });
                                }
                                prev = Some(c);
                            }
                        }
                    }
                }
            }
            a
        })
        .collect();
    let mut acc = merge_all(accs);
    acc.bump("field_product_cases", acc.evaluations);
    // (b)
    let depth = ctx.tier.pick(3, 4);
    let mut hs: Vec<Vec<HTx>> = vec![vec![]];
    let mut frontier = vec![vec![]];
    for _ in 0..depth {
        let mut next = vec![];
        for h in &frontier {
            for x in HMENU {
                let mut t: Vec<HTx> = h.clone();
                t.push(x);
                next.push(t);
            }
        }
        hs.extend(next.iter().cloned());
        frontier = next;
    }
    let bspecs = [SpecId::HOMESTEAD, SpecId::LONDON, SpecId::PRAGUE];
    let baccs: Vec<Acc> = hs
        .par_chunks(32)
        .map(|ch| {
            let mut a = Acc::new();
            for h in ch {
                for s in bspecs {
                    let v = check_b(s, h);
                    a.evaluations += 1;
                    a.states += 1;
                    a.transitions += 2 * h.len() as u64;
                    a.traces += 1;
                    a.distinct(&(s, format!("{h:?}")));
                    for (k, m) in v {
                        a.violation(Violation { key: k, msg: format!("{s:?} {h:?}: {m}"), case: json!({"history": h, "spec": spec_name(s)}) });
                    }
                }
            }
            a
        })
        .collect();
    let b = merge_all(baccs);
    acc.bump("no_effect_histories", b.evaluations);
    acc.merge(b);
    let meta = Meta {
        rule: format!("(a) full product: 19 transaction shapes (call, calldata with floor > intrinsic, create, init code at / above the limit, access list, 8 blob shapes, 4 authorization-list shapes) x chain id {{none, right, wrong}} x 7 (sender nonce, tx nonce) relations incl. 2^64-1 x gas limit {{intrinsic-1, intrinsic, floor-1, floor, block limit, block limit+1}} x (base fee, max fee, priority fee) in {{0,1,2}}^2 x {{none,0,1,2}} x value {{0,1}} x sender balance {{cost-1, cost, cost+1}} x sender code {{none, code, designator}} on {} specs; (b) every history of <= {depth} transactions from 3 accepted and 5 rejected kinds plus preverify_transaction on one Evm, compared with the history without the rejected ones; distinct = distinct (spec, shape, chain, nonce, gas, verdict, code, balance)", specs.len()),
        assumptions: vec![
            "oracle = validity predicate transcribed from EIP-155, 2, 2028, 2681, 2718/2930, 1559, 3607, 3860, 4844, 7623, 7702; only accept / reject is compared".into(),
            "optional fields left unset (nonce, chain id) mean 'rule not applicable'; EIP-3607 is applied on every fork; fields of a later transaction type used before its fork make the transaction invalid".into(),
        ],
        bounds: json!({"specs": specs.len(), "fees": fees.len(), "history_depth": depth}),
        min_distinct: 1000,
        exhaustive: true,
        explanation: "accept/reject equals the rule predicate on the full product; rejected transactions leave later results and the database unchanged".into(),
    };
    finish(ctx, acc, meta, &replay)
}
