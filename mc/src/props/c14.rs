//! C14: dynamic gas cost formulas equal the specification for all arguments — E3.
use crate::fw::*;
use crate::lattice::*;
use crate::world::*;
use num_bigint::BigUint;
use num_traits::{ToPrimitive, Zero};
use rayon::prelude::*;
use revm::interpreter::gas::*;
use revm::interpreter::{AccountLoad, Eip7702CodeLoad, SStoreResult, SelfDestructResult, StateLoad};
use revm::primitives::{AccessListItem, Address, SpecId, B256, U256};
use serde_json::{json, Value};

fn bu(x: u64) -> BigUint {
    BigUint::from(x)
}
fn words(len: u64) -> BigUint {
    (bu(len) + bu(31)) / bu(32)
}
fn fit(b: &BigUint) -> Option<u64> {
    b.to_u64()
}
fn en(spec: SpecId, s: SpecId) -> bool {
    spec.is_enabled_in(s)
}

// ---- reference definitions (EIP transcriptions, unbounded integers) ----
fn ref_memory(n_words: u64) -> BigUint {
    bu(3) * bu(n_words) + bu(n_words) * bu(n_words) / bu(512)
}
fn ref_sstore(spec: SpecId, o: u64, p: u64, n: u64, gas: u64, cold: bool) -> (Option<u64>, i64) {
    use SpecId::*;
    if !en(spec, ISTANBUL) {
        let cost = if p == 0 && n != 0 { 20000 } else { 5000 };
        let refund = if p != 0 && n == 0 { 15000 } else { 0 };
        return (Some(cost), refund);
    }
    let (sload, reset) = if en(spec, BERLIN) { (100u64, 2900u64) } else { (800, 5000) };
    let clears: i64 = if en(spec, LONDON) { 4800 } else { 15000 };
    let mut cost;
    let mut refund: i64 = 0;
    if p == n {
        cost = sload;
    } else if o == p {
        if o == 0 {
            cost = 20000;
        } else {
            cost = reset;
            if n == 0 {
                refund += clears;
            }
        }
    } else {
        cost = sload;
        if o != 0 {
            if p == 0 {
                refund -= clears;
            }
            if n == 0 {
                refund += clears;
            }
        }
        if o == n {
            if o == 0 {
                refund += (20000 - sload) as i64;
            } else {
                refund += (reset - sload) as i64;
            }
        }
    }
    if en(spec, BERLIN) && cold {
        cost += 2100;
    }
    let c = if gas <= 2300 { None } else { Some(cost) };
    (c, refund)
}
fn ref_call(spec: SpecId, value: bool, cold: bool, delegate: Option<bool>, empty: bool) -> u64 {
    use SpecId::*;
    let mut g = if en(spec, BERLIN) {
        let mut g = if cold { 2600 } else { 100 };
        if let Some(dc) = delegate {
            g += if dc { 2600 } else { 100 };
        }
        g
    } else if en(spec, TANGERINE) {
        700
    } else {
        40
    };
    if value {
        g += 9000;
    }
    if empty && (value || !en(spec, SPURIOUS_DRAGON)) {
        g += 25000;
    }
    g
}
fn ref_selfdestruct(spec: SpecId, had_value: bool, exists: bool, cold: bool) -> u64 {
    use SpecId::*;
    let mut g = 0;
    if en(spec, TANGERINE) {
        g += 5000;
        let topup = if en(spec, SPURIOUS_DRAGON) { had_value && !exists } else { !exists };
        if topup {
            g += 25000;
        }
    }
    if en(spec, BERLIN) && cold {
        g += 2600;
    }
    g
}
fn ref_intrinsic(spec: SpecId, zeros: u64, nonzeros: u64, create: bool, al_addrs: u64, al_keys: u64, auths: u64) -> (BigUint, BigUint) {
    use SpecId::*;
    let nz = if en(spec, ISTANBUL) { 16u64 } else { 68 };
    let mut g = bu(21000) + bu(zeros) * bu(4) + bu(nonzeros) * bu(nz);
    if create && en(spec, HOMESTEAD) {
        g += bu(32000);
    }
    if en(spec, BERLIN) {
        g += bu(al_addrs) * bu(2400) + bu(al_keys) * bu(1900);
    }
    if create && en(spec, SHANGHAI) {
        g += bu(2) * words(zeros + nonzeros);
    }
    let mut floor = BigUint::zero();
    if en(spec, PRAGUE) {
        g += bu(auths) * bu(25000);
        floor = bu(21000) + bu(10) * (bu(zeros) + bu(4) * bu(nonzeros));
    }
    (g, floor)
}

fn viol(a: &mut Acc, key: &str, msg: String, case: Value) {
    a.violation(Violation { key: key.to_string(), msg, case });
}

/// generic comparison of Option<u64> result with an unbounded expectation
fn cmp_opt(a: &mut Acc, f: &str, got: Option<u64>, exp: &BigUint, case: Value) {
    a.evaluations += 1;
    let e = fit(exp);
    a.distinct(&(f, e));
    if got != e {
        // the known num_words rounding at len >= 2^64-31 is classified separately
        let key = if case["len"].as_u64().map(|l| l > u64::MAX - 31).unwrap_or(false) { format!("{f}:len-within-31-of-2^64") } else { f.to_string() };
        viol(a, &key, format!("{f}: got {got:?}, specification gives {exp} (fits: {})", e.is_some()), case);
    }
}

fn check_one(kind: &str, c: &Value, a: &mut Acc) {
    let spec = c.get("spec").and_then(|s| s.as_str()).map(spec_from_name).unwrap_or(SpecId::CANCUN);
    let u = |k: &str| c[k].as_u64().unwrap();
    let b = |k: &str| c[k].as_bool().unwrap();
    match kind {
        "memory_gas" => {
            let n = u("words");
            a.evaluations += 1;
            let exp = ref_memory(n);
            let got = memory_gas(n);
            let ok = match fit(&exp) {
                Some(e) => got == e,
                None => got == u64::MAX, // documented saturation: can never be paid
            };
            a.distinct(&("mem", fit(&exp)));
            if !ok {
                viol(a, "memory_gas", format!("memory_gas({n}) = {got}, quadratic formula gives {exp}"), c.clone());
            }
        }
        "memory_gas_for_len" => {
            let l = u("len");
            a.evaluations += 1;
            let exp = ref_memory(words(l).to_u64().unwrap());
            let got = memory_gas_for_len(l as usize);
            if fit(&exp) != Some(got) && !(fit(&exp).is_none() && got == u64::MAX) {
                viol(a, "memory_gas_for_len", format!("memory_gas_for_len({l}) = {got}, formula gives {exp}"), c.clone());
            }
        }
        "len_costs" => {
            let l = u("len");
            let w = words(l);
            cmp_opt(a, "cost_per_word", cost_per_word(l, 3), &(bu(3) * &w), c.clone());
            cmp_opt(a, "verylowcopy_cost", verylowcopy_cost(l), &(bu(3) + bu(3) * &w), c.clone());
            cmp_opt(a, "keccak256_cost", keccak256_cost(l), &(bu(30) + bu(6) * &w), c.clone());
            cmp_opt(a, "create2_cost", create2_cost(l), &(bu(32000) + bu(6) * &w), c.clone());
            for n in 0..=4u8 {
                cmp_opt(a, "log_cost", log_cost(n, l), &(bu(375) + bu(375) * bu(n as u64) + bu(8) * bu(l)), c.clone());
            }
            for s in all_specs() {
                for cold in [false, true] {
                    let base = if en(s, SpecId::BERLIN) {
                        if cold { 2600 } else { 100 }
                    } else if en(s, SpecId::TANGERINE) {
                        700
                    } else {
                        20
                    };
                    cmp_opt(a, "extcodecopy_cost", extcodecopy_cost(s, l, cold), &(bu(base) + bu(3) * &w), c.clone());
                }
            }
            match catch(|| initcode_cost(l)) {
                Ok(g) => cmp_opt(a, "initcode_cost", Some(g), &(bu(2) * &w), c.clone()),
                Err(p) => viol(a, "initcode_cost:panic", p, c.clone()),
            }
        }
        "exp_cost" => {
            let power: U256 = serde_json::from_value(c["power"].clone()).unwrap();
            let bytes = (power.bit_len() as u64 + 7) / 8;
            let per = if en(spec, SpecId::SPURIOUS_DRAGON) { 50 } else { 10 };
            cmp_opt(a, "exp_cost", exp_cost(spec, power), &(bu(10) + bu(per) * bu(bytes)), c.clone());
        }
        "sstore" => {
            let (o, p, n, gas, cold) = (u("original"), u("present"), u("new"), u("gas"), b("cold"));
            let vals = SStoreResult { original_value: U256::from(o), present_value: U256::from(p), new_value: U256::from(n) };
            let (ec, er) = ref_sstore(spec, o, p, n, gas, cold);
            a.evaluations += 1;
            let gc = sstore_cost(spec, &vals, gas, cold);
            let gr = sstore_refund(spec, &vals);
            a.distinct(&("sstore", ec, er));
            if gc != ec {
                viol(a, "sstore_cost", format!("{spec:?} sstore_cost(o={o},p={p},n={n},gas={gas},cold={cold}) = {gc:?}, EIP gives {ec:?}"), c.clone());
            }
            if gr != er {
                viol(a, "sstore_refund", format!("{spec:?} sstore_refund(o={o},p={p},n={n}) = {gr}, EIP gives {er}"), c.clone());
            }
        }
        "sload" => {
            let cold = b("cold");
            let exp = if en(spec, SpecId::BERLIN) {
                if cold { 2100 } else { 100 }
            } else if en(spec, SpecId::ISTANBUL) {
                800
            } else if en(spec, SpecId::TANGERINE) {
                200
            } else {
                50
            };
            a.evaluations += 1;
            a.distinct(&("sload", exp));
            if sload_cost(spec, cold) != exp {
                viol(a, "sload_cost", format!("{spec:?} sload_cost(cold={cold}) = {}, EIP gives {exp}", sload_cost(spec, cold)), c.clone());
            }
        }
        "call" => {
            let (value, cold, empty) = (b("value"), b("cold"), b("empty"));
            let delegate: Option<bool> = serde_json::from_value(c["delegate"].clone()).unwrap();
            let load = AccountLoad { load: Eip7702CodeLoad { state_load: StateLoad { data: (), is_cold: cold }, is_delegate_account_cold: delegate }, is_empty: empty };
            let got = call_cost(spec, value, load);
            let exp = ref_call(spec, value, cold, delegate, empty);
            a.evaluations += 1;
            a.distinct(&("call", exp));
            if got != exp {
                viol(a, "call_cost", format!("{spec:?} call_cost(value={value},cold={cold},delegate={delegate:?},empty={empty}) = {got}, EIP gives {exp}"), c.clone());
            }
        }
        "selfdestruct" => {
            let (hv, ex, cold, pd) = (b("had_value"), b("exists"), b("cold"), b("previously"));
            let got = selfdestruct_cost(spec, StateLoad { data: SelfDestructResult { had_value: hv, target_exists: ex, previously_destroyed: pd }, is_cold: cold });
            let exp = ref_selfdestruct(spec, hv, ex, cold);
            a.evaluations += 1;
            a.distinct(&("sd", exp));
            if got != exp {
                viol(a, "selfdestruct_cost", format!("{spec:?} selfdestruct_cost(had_value={hv},exists={ex},cold={cold}) = {got}, EIP gives {exp}"), c.clone());
            }
        }
        "intrinsic" => {
            let (z, nz, create, aa, ak, au) = (u("zeros"), u("nonzeros"), b("create"), u("al_addrs"), u("al_keys"), u("auths"));
            let mut input = vec![0u8; z as usize];
            input.extend(std::iter::repeat(0x11u8).take(nz as usize));
            // interleave so that position does not matter
            if z > 0 && nz > 0 {
                input.swap(0, (z + nz - 1) as usize);
            }
            let mut al = vec![];
            for i in 0..aa {
                let keys = if i == 0 { ak } else { 0 };
                al.push(AccessListItem { address: Address::with_last_byte(i as u8 + 1), storage_keys: (0..keys).map(|k| B256::with_last_byte(k as u8)).collect() });
            }
            let keys_total = if aa > 0 { ak } else { 0 };
            let got = calculate_initial_tx_gas(spec, &input, create, &al, au);
            let (eg, ef) = ref_intrinsic(spec, z, nz, create, aa, keys_total, au);
            a.evaluations += 1;
            a.distinct(&("intrinsic", fit(&eg), fit(&ef)));
            if Some(got.initial_gas) != fit(&eg) {
                viol(a, "initial_tx_gas", format!("{spec:?} intrinsic(zeros={z},nonzeros={nz},create={create},al={aa}/{keys_total},auths={au}) = {}, EIPs give {eg}", got.initial_gas), c.clone());
            }
            if Some(got.floor_gas) != fit(&ef) {
                viol(a, "floor_gas", format!("{spec:?} floor(zeros={z},nonzeros={nz}) = {}, EIP-7623 gives {ef}", got.floor_gas), c.clone());
            }
            if en(spec, SpecId::PRAGUE) {
                let tokens = z + 4 * nz;
                if Some(calc_tx_floor_cost(tokens)) != fit(&ef) {
                    viol(a, "calc_tx_floor_cost", format!("calc_tx_floor_cost({tokens})"), c.clone());
                }
            }
        }
        _ => panic!("unknown kind {kind}"),
    }
}

pub fn replay(case: &Value) -> Vec<Violation> {
    let mut a = Acc::new();
    let kind = case["kind"].as_str().unwrap().to_string();
    if let Err(p) = catch(|| check_one(&kind, case, &mut a)) {
        a.violation(Violation { key: format!("{kind}:panic"), msg: p, case: case.clone() });
    }
    a.violations
}

pub fn run(ctx: &Ctx) -> i32 {
    let mut cases: Vec<Value> = vec![];
    let lat = u64s();
    for n in &lat {
        cases.push(json!({"kind":"memory_gas","words":n}));
        cases.push(json!({"kind":"len_costs","len":n}));
        if *n <= usize::MAX as u64 {
            cases.push(json!({"kind":"memory_gas_for_len","len":n}));
        }
    }
    let maxlen = ctx.tier.pick(1u64 << 12, 1u64 << 16);
    for l in 0..=maxlen {
        cases.push(json!({"kind":"memory_gas","words":l}));
        cases.push(json!({"kind":"memory_gas_for_len","len":l}));
    }
    for l in 0..=2048u64 {
        cases.push(json!({"kind":"len_costs","len":l}));
    }
    // words near the overflow frontier of the quadratic term
    for base in [1u64 << 31, 1 << 32, 1 << 33, 3037000499, 3037000500, 97_000_000_000, 97_156_000_000, 1 << 40] {
        for d in 0..3u64 {
            cases.push(json!({"kind":"memory_gas","words":base + d}));
            cases.push(json!({"kind":"memory_gas","words":base - d}));
        }
    }
    let specs = all_specs();
    for s in &specs {
        let sn = spec_name(*s);
        for k in 0..=32usize {
            for p in [U256::from(1) << (8 * k).min(255), (U256::from(1) << (8 * k).min(255)) - U256::from(1), U256::ZERO, U256::MAX] {
                cases.push(json!({"kind":"exp_cost","spec":sn,"power":p}));
            }
        }
        for o in 0..3u64 {
            for p in 0..3u64 {
                for n in 0..3u64 {
                    for gas in [0u64, 2299, 2300, 2301, 100000] {
                        for cold in [false, true] {
                            cases.push(json!({"kind":"sstore","spec":sn,"original":o,"present":p,"new":n,"gas":gas,"cold":cold}));
                        }
                    }
                }
            }
        }
        for cold in [false, true] {
            cases.push(json!({"kind":"sload","spec":sn,"cold":cold}));
            for value in [false, true] {
                for empty in [false, true] {
                    for delegate in [None, Some(false), Some(true)] {
                        cases.push(json!({"kind":"call","spec":sn,"value":value,"cold":cold,"empty":empty,"delegate":delegate}));
                    }
                    for pd in [false, true] {
                        cases.push(json!({"kind":"selfdestruct","spec":sn,"had_value":value,"exists":!empty,"cold":cold,"previously":pd}));
                    }
                }
            }
        }
        let zr = ctx.tier.pick(vec![0u64, 1, 2, 31, 32, 33, 40], (0..=40).collect::<Vec<_>>());
        for z in &zr {
            for nz in &zr {
                for create in [false, true] {
                    for (aa, ak) in [(0u64, 0u64), (1, 0), (1, 3), (2, 1)] {
                        for au in [0u64, 1, 3] {
                            cases.push(json!({"kind":"intrinsic","spec":sn,"zeros":z,"nonzeros":nz,"create":create,"al_addrs":aa,"al_keys":ak,"auths":au}));
                        }
                    }
                }
            }
        }
    }
    let accs: Vec<Acc> = cases
        .par_chunks(256)
        .map(|ch| {
            let mut a = Acc::new();
            for c in ch {
                let kind = c["kind"].as_str().unwrap().to_string();
                a.states += 1;
                if let Err(p) = catch(|| check_one(&kind, c, &mut a)) {
                    a.violation(Violation { key: format!("{kind}:panic"), msg: p, case: c.clone() });
                }
                a.outcome(&kind);
            }
            a
        })
        .collect();
    let mut acc = merge_all(accs);
    acc.transitions = acc.evaluations;
    acc.sample(|| json!({"kind":"sstore","spec":"LONDON","original":1,"present":0,"new":1,"gas":100000,"cold":true}));
    acc.sample(|| json!({"kind":"memory_gas","words": 1u64 << 33}));
    let meta = Meta {
        rule: "every public gas formula over its full argument lattice (u64 boundary lattice, complete small ranges, every (original,present,new) in {0,1,2}^3 x cold x gas-sentry, all flag combinations, calldata mixes x access lists x auth counts) x all SpecIds; distinct = distinct (function, expected value)".into(),
        assumptions: vec![
            "CONSTANTINOPLE is treated as PETERSBURG (no EIP-1283), as mainnet activated it".into(),
            "memory_gas returns u64, so 'failure' is the saturated value u64::MAX".into(),
        ],
        bounds: json!({"u64_lattice": lat.len(), "complete_len_range": maxlen, "specs": specs.len()}),
        min_distinct: 500,
        exhaustive: true,
        explanation: "reference = bigint transcriptions of the EIP formulas".into(),
    };
    finish(ctx, acc, meta, &replay)
}
