//! C33: Optimism transactions charge and distribute fees consistently — E2 in the `op` build.
//!
//! Enumerated: macro programs x transaction kinds (regular legacy / EIP-1559 capped and uncapped /
//! with value, deposits with and without mint that succeed, revert or halt, system deposits) x
//! L1 block parameter menus x enveloped-transaction sizes x specs BEDROCK..ISTHMUS.
//! Oracle: BigUint sums over the whole world: the sender's debit equals the value it transferred plus
//! what the beneficiary, base-fee vault, L1-fee vault and operator-fee vault received; the L1 vault
//! receives the Bedrock / Ecotone cost formula of the enveloped bytes; deposits mint exactly `mint`
//! and persist mint and nonce bump when they fail.
#![allow(unused_imports)]
use crate::exec::*;
use crate::fw::*;
use crate::gen::*;
use crate::lattice::big;
use crate::macros::*;
use crate::world::*;
use num_bigint::BigUint;
use num_traits::Zero;
use rayon::prelude::*;
use revm::db::{CacheDB, EmptyDB};
use revm::primitives::{address, Address, Bytes, SpecId, B256, U256};
use revm::{Evm, Handler};
use serde::{Deserialize, Serialize};
use serde_json::{json, Value};

#[cfg(not(feature = "op"))]
pub fn replay(_case: &Value) -> Vec<Violation> {
    vec![]
}
#[cfg(not(feature = "op"))]
pub fn run(_ctx: &Ctx) -> i32 {
    eprintln!("MACHINERY: C33 needs the harness built with the optimism feature (./check runs it in the op build)");
    2
}

#[cfg(feature = "op")]
pub use imp::{replay, run};

#[cfg(feature = "op")]
mod imp {
    use super::*;
    use revm::optimism::{BASE_FEE_RECIPIENT, L1_BLOCK_CONTRACT, L1_FEE_RECIPIENT};
    pub const OPERATOR_VAULT: Address = address!("420000000000000000000000000000000000001B");

    #[derive(Clone, Copy, Debug, PartialEq, Eq, Hash, Serialize, Deserialize)]
    pub enum Kind {
        Legacy,
        Value1,
        Eip1559,
        Eip1559Capped,
        TightGas,
        Deposit { mint: u8, value: u8 },
        SystemDeposit,
        /// deposit that creates a contract (the program is the init code), with mint
        DepositCreate,
        /// deposit whose gas limit is below the intrinsic gas
        DepositLowGas,
    }
    #[derive(Clone, Copy, Debug, PartialEq, Eq, Hash, Serialize, Deserialize)]
    pub enum L1 {
        Zero,
        Typical,
        Huge,
    }
    #[derive(Clone, Debug, Serialize, Deserialize)]
    pub struct Case33 {
        pub spec: String,
        pub kind: Kind,
        pub l1: L1,
        pub envelope: Bytes,
        pub code: Bytes,
        pub program: String,
        /// an earlier transaction (kind, enveloped bytes) executed on the same Evm instance, not committed
        #[serde(default)]
        pub prev: Option<(Kind, Bytes)>,
    }
    struct L1Params {
        base_fee: u64,
        overhead: u64,
        scalar: u64,
        blob_base_fee: u64,
        base_fee_scalar: u32,
        blob_scalar: u32,
        op_scalar: u32,
        op_constant: u64,
    }
    fn l1_params(l: L1) -> L1Params {
        match l {
            L1::Zero => L1Params { base_fee: 0, overhead: 0, scalar: 0, blob_base_fee: 0, base_fee_scalar: 0, blob_scalar: 0, op_scalar: 0, op_constant: 0 },
            L1::Typical => L1Params { base_fee: 1_000, overhead: 188, scalar: 684_000, blob_base_fee: 3, base_fee_scalar: 1368, blob_scalar: 810_949, op_scalar: 500_000, op_constant: 1_000 },
            L1::Huge => L1Params { base_fee: 1 << 40, overhead: 1 << 20, scalar: 5_000_000, blob_base_fee: 1 << 30, base_fee_scalar: u32::MAX, blob_scalar: u32::MAX, op_scalar: u32::MAX, op_constant: 1 << 40 },
        }
    }
    fn world_for(c: &Case33) -> Plain {
        let mut w = std_world();
        w.insert(A, PlainAcc::contract(&c.code).with_balance(U256::from(10)).with_storage(1, 5));
        let p = l1_params(c.l1);
        let mut l1 = PlainAcc::default();
        l1.nonce = 1;
        let mut put = |k: u64, v: U256| {
            if !v.is_zero() {
                l1.storage.insert(U256::from(k), v);
            }
        };
        put(1, U256::from(p.base_fee));
        put(5, U256::from(p.overhead));
        put(6, U256::from(p.scalar));
        put(7, U256::from(p.blob_base_fee));
        put(3, (U256::from(p.base_fee_scalar) << 96) | (U256::from(p.blob_scalar) << 64));
        put(8, (U256::from(p.op_scalar) << 64) | U256::from(p.op_constant));
        w.insert(L1_BLOCK_CONTRACT, l1);
        w
    }
    fn tx_case(c: &Case33) -> TxCase {
        let spec = spec_from_name(&c.spec);
        let mut t = TxCase::new(spec, world_for(c));
        t.tx.gas_limit = 1_000_000;
        t.tx.gas_price = U256::from(10);
        t.block.basefee = U256::from(7);
        t.tx.nonce = Some(0);
        match c.kind {
            Kind::Legacy => {}
            Kind::Value1 => t.tx.value = U256::from(1),
            Kind::Eip1559 => {
                t.tx.gas_price = U256::from(20);
                t.tx.priority_fee = Some(U256::from(2));
            }
            Kind::Eip1559Capped => {
                t.tx.gas_price = U256::from(9);
                t.tx.priority_fee = Some(U256::from(5));
            }
            Kind::TightGas => t.tx.gas_limit = 21_000 + 30_000,
            Kind::Deposit { value, .. } => {
                t.tx.gas_price = U256::ZERO;
                t.tx.value = U256::from(value);
            }
            Kind::SystemDeposit => t.tx.gas_price = U256::ZERO,
            Kind::DepositCreate => {
                t.tx.gas_price = U256::ZERO;
                t.tx.to = None;
                t.tx.data = c.code.clone();
            }
            Kind::DepositLowGas => {
                t.tx.gas_price = U256::ZERO;
                t.tx.gas_limit = 20_000;
            }
        }
        t
    }
    fn env33(t: &TxCase, kind: Kind, envelope: &Bytes) -> Box<revm::primitives::Env> {
        let mut env = t.env();
        match kind {
            Kind::DepositCreate | Kind::DepositLowGas => {
                env.tx.optimism.source_hash = Some(B256::with_last_byte(3));
                env.tx.optimism.mint = Some(5);
                env.tx.optimism.is_system_transaction = Some(false);
            }
            Kind::Deposit { mint, .. } => {
                env.tx.optimism.source_hash = Some(B256::with_last_byte(1));
                env.tx.optimism.mint = if mint == 0 { None } else { Some(mint as u128) };
                env.tx.optimism.is_system_transaction = Some(false);
            }
            Kind::SystemDeposit => {
                env.tx.optimism.source_hash = Some(B256::with_last_byte(2));
                env.tx.optimism.is_system_transaction = Some(true);
            }
            _ => {}
        }
        env.tx.optimism.enveloped_tx = Some(envelope.clone());
        env
    }
    fn exec33(c: &Case33) -> (TxCase, Outcome) {
        let t = tx_case(c);
        let spec = t.spec();
        let env = env33(&t, c.kind, &c.envelope);
        let first_env = match &c.prev {
            Some((k, e)) => {
                let pc = Case33 { kind: *k, envelope: e.clone(), prev: None, ..c.clone() };
                env33(&tx_case(&pc), *k, e)
            }
            None => env.clone(),
        };
        let mut evm = Evm::builder().with_db(to_cachedb(&t.world)).with_env(first_env).with_handler(Handler::optimism_with_spec(spec, true)).build();
        if c.prev.is_some() {
            let _ = catch(|| evm.transact());
            evm.context.evm.inner.env = env;
        }
        let r = catch(|| evm.transact());
        let o = match r {
            Ok(r) => Outcome::from_result(r),
            Err(p) => Outcome { class: Class::Fatal, reason: format!("panic: {p}"), gas_used: 0, gas_refunded: 0, output: Bytes::new(), logs: vec![], created: None, state: Default::default() },
        };
        (t, o)
    }
    fn data_gas(spec: SpecId, input: &[u8]) -> BigUint {
        let z = input.iter().filter(|b| **b == 0).count() as u64;
        let nz = input.len() as u64 - z;
        let mut g = 4 * z + 16 * nz;
        if !spec.is_enabled_in(SpecId::REGOLITH) {
            g += 16 * 68;
        }
        BigUint::from(g)
    }
    /// OP-stack L1 cost definitions (Bedrock and Ecotone); None where the harness has no independent definition
    fn l1_cost_ref(spec: SpecId, l: L1, input: &[u8]) -> Option<BigUint> {
        let p = l1_params(l);
        if input.is_empty() || input[0] == 0x7f {
            return Some(BigUint::zero());
        }
        if spec.is_enabled_in(SpecId::FJORD) {
            return None;
        }
        let bedrock = (data_gas(spec, input) + BigUint::from(p.overhead)) * BigUint::from(p.base_fee) * BigUint::from(p.scalar) / BigUint::from(1_000_000u64);
        if spec.is_enabled_in(SpecId::ECOTONE) {
            if p.base_fee_scalar == 0 && p.blob_scalar == 0 {
                // first Ecotone block: the scalars are still unset and the Bedrock function applies
                return Some(bedrock);
            }
            let scaled = BigUint::from(16u64) * BigUint::from(p.base_fee) * BigUint::from(p.base_fee_scalar) + BigUint::from(p.blob_base_fee) * BigUint::from(p.blob_scalar);
            return Some(data_gas(spec, input) * scaled / BigUint::from(16_000_000u64));
        }
        Some(bedrock)
    }

    pub fn check(c: &Case33) -> (Vec<(String, String)>, String) {
        let (t, o) = exec33(c);
        let spec = t.spec();
        let mut v = vec![];
        if c.prev.is_some() {
            // nothing was committed: the same transaction on a fresh instance must give the same result
            let (_, f) = exec33(&Case33 { prev: None, ..c.clone() });
            let bals = |o: &Outcome| {
                let mut b: Vec<(Address, U256, u64)> = o.state.iter().filter(|(_, a)| a.is_touched()).map(|(a, acc)| (*a, acc.info.balance, acc.info.nonce)).collect();
                b.sort();
                b
            };
            if (&o.class, &o.reason, o.gas_used, bals(&o)) != (&f.class, &f.reason, f.gas_used, bals(&f)) {
                v.push(("earlier-transaction-changes-result".into(), format!("after {:?} on the same instance: {:?} {} gas {} balances {:?}; on a fresh instance: {:?} {} gas {} balances {:?}", c.prev.as_ref().map(|p| p.0), o.class, o.reason, o.gas_used, bals(&o), f.class, f.reason, f.gas_used, bals(&f))));
                return (v, format!("{:?}", o.class));
            }
        }
        let is_deposit = matches!(c.kind, Kind::Deposit { .. } | Kind::SystemDeposit | Kind::DepositCreate | Kind::DepositLowGas);
        let sig = format!("{:?}/{}", o.class, o.reason.split('(').next().unwrap_or(""));
        if o.class == Class::Fatal {
            v.push((if o.reason.starts_with("panic") { "panic".to_string() } else { "fatal".to_string() }, o.reason.clone()));
            return (v, sig);
        }
        if o.class == Class::Invalid {
            // system deposits are rejected from Regolith; nothing else in this menu is invalid
            let expected = c.kind == Kind::SystemDeposit && spec.is_enabled_in(SpecId::REGOLITH);
            if !expected && !is_deposit {
                v.push(("unexpected-rejection".into(), o.reason.clone()));
            }
            if !expected && is_deposit {
                // a deposit is never dropped: when it fails, mint and nonce bump must still be persisted
                v.push((format!("deposit-rejected:{:?}", c.kind).split(' ').next().unwrap().to_string(), format!("the deposit was rejected ({}) instead of being recorded as failed with its mint and nonce bump", o.reason)));
            }
            return (v, sig);
        }
        let mut post = t.world.clone();
        commit_plain(&mut post, &o.state, SpecId::CANCUN);
        let bal = |p: &Plain, a: Address| p.get(&a).map(|x| big(x.balance)).unwrap_or_default();
        let delta = |a: Address| -> (BigUint, BigUint) { (bal(&t.world, a), bal(&post, a)) };
        let (s_pre, s_post) = delta(t.tx.caller);
        let nonce_post = post.get(&t.tx.caller).map(|x| x.nonce).unwrap_or(0);
        let credit = |a: Address| -> BigUint {
            let (pre, post) = delta(a);
            if post >= pre {
                post - pre
            } else {
                BigUint::zero()
            }
        };
        let value_moved = if o.class == Class::Success { big(t.tx.value) } else { BigUint::zero() };
        if is_deposit {
            let mint = match c.kind {
                Kind::Deposit { mint, .. } => BigUint::from(mint),
                Kind::DepositCreate | Kind::DepositLowGas => BigUint::from(5u8),
                _ => BigUint::zero(),
            };
            let expect = &s_pre + &mint - &value_moved;
            if s_post != expect {
                v.push(("deposit-balance".into(), format!("deposit sender balance {s_pre} -> {s_post}; expected {expect} (mint {mint}, value moved {value_moved}, outcome {sig})")));
            }
            if nonce_post != 1 {
                v.push(("deposit-nonce".into(), format!("deposit sender nonce is {nonce_post} after the transaction ({sig}), expected 1")));
            }
            for (name, a) in [("beneficiary", t.block.coinbase), ("base-fee vault", BASE_FEE_RECIPIENT), ("L1-fee vault", L1_FEE_RECIPIENT), ("operator-fee vault", OPERATOR_VAULT)] {
                if !credit(a).is_zero() {
                    v.push(("deposit-paid-fees".into(), format!("{name} received {} from a deposit transaction", credit(a))));
                }
            }
            return (v, sig);
        }
        let credits = credit(t.block.coinbase) + credit(BASE_FEE_RECIPIENT) + credit(L1_FEE_RECIPIENT) + credit(OPERATOR_VAULT);
        let debit = if s_pre >= s_post { &s_pre - &s_post } else { BigUint::zero() };
        if s_post > s_pre || debit != &value_moved + &credits {
            let key = if spec.is_enabled_in(SpecId::ISTHMUS) && c.l1 != L1::Zero { "fee-conservation:operator-fee" } else { "fee-conservation" };
            v.push((
                key.into(),
                format!(
                    "sender balance {s_pre} -> {s_post}; value moved {value_moved}; beneficiary +{}, base-fee vault +{}, L1-fee vault +{}, operator-fee vault +{} (gas used {}, outcome {sig})",
                    credit(t.block.coinbase),
                    credit(BASE_FEE_RECIPIENT),
                    credit(L1_FEE_RECIPIENT),
                    credit(OPERATOR_VAULT),
                    o.gas_used
                ),
            ));
        }
        // component formulas
        let base = big(t.block.basefee) * BigUint::from(o.gas_used);
        if credit(BASE_FEE_RECIPIENT) != base {
            v.push(("base-fee-vault".into(), format!("base-fee vault received {}, base fee x gas used = {base}", credit(BASE_FEE_RECIPIENT))));
        }
        let eff = crate::props::txinv::eff_price(&t);
        let tip = big(eff - t.block.basefee) * BigUint::from(o.gas_used);
        if credit(t.block.coinbase) != tip {
            v.push(("beneficiary-credit".into(), format!("beneficiary received {}, (effective price - base fee) x gas used = {tip}", credit(t.block.coinbase))));
        }
        if let Some(l1) = l1_cost_ref(spec, c.l1, &c.envelope) {
            if credit(L1_FEE_RECIPIENT) != l1 {
                v.push(("l1-cost".into(), format!("L1-fee vault received {}, the cost function of the enveloped bytes gives {l1}", credit(L1_FEE_RECIPIENT))));
            }
        }
        if spec.is_enabled_in(SpecId::ISTHMUS) {
            let p = l1_params(c.l1);
            let opf = BigUint::from(o.gas_used) * BigUint::from(p.op_scalar) / BigUint::from(1_000_000u64) + BigUint::from(p.op_constant);
            if credit(OPERATOR_VAULT) != opf {
                v.push(("operator-fee".into(), format!("operator-fee vault received {}, gas used x scalar / 1e6 + constant = {opf}", credit(OPERATOR_VAULT))));
            }
        } else if !credit(OPERATOR_VAULT).is_zero() {
            v.push(("operator-fee-before-isthmus".into(), format!("operator-fee vault received {} before Isthmus", credit(OPERATOR_VAULT))));
        }
        (v, sig)
    }

    pub fn replay(case: &Value) -> Vec<Violation> {
        let c: Case33 = serde_json::from_value(case["c"].clone()).unwrap();
        check(&c).0.into_iter().map(|(k, m)| Violation { key: k, msg: m, case: case.clone() }).collect()
    }

    pub fn run(ctx: &Ctx) -> i32 {
        let specs = [SpecId::BEDROCK, SpecId::REGOLITH, SpecId::CANYON, SpecId::ECOTONE, SpecId::FJORD, SpecId::GRANITE, SpecId::HOLOCENE, SpecId::ISTHMUS];
        let kinds = [
            Kind::Legacy,
            Kind::Value1,
            Kind::Eip1559,
            Kind::Eip1559Capped,
            Kind::TightGas,
            Kind::Deposit { mint: 0, value: 0 },
            Kind::Deposit { mint: 5, value: 0 },
            Kind::Deposit { mint: 5, value: 3 },
            Kind::Deposit { mint: 0, value: 1 },
            Kind::SystemDeposit,
            Kind::DepositCreate,
            Kind::DepositLowGas,
        ];
        let envelopes: Vec<Bytes> = vec![
            Bytes::new(),
            Bytes::from_static(&[0x02, 0x00, 0x01, 0xff]),
            Bytes::from((0..120u8).map(|i| if i % 3 == 0 { 0 } else { i }).collect::<Vec<u8>>()),
            Bytes::from_static(&[0x7f, 0x01, 0x02]),
        ];
        let alpha: Vec<Mac> = crate::props::txinv::fee_safe_alphabet();
        let depth = ctx.tier.pick(1, 2);
        // earlier transactions on the same instance (programs of depth <= 1 only)
        let prevs: Vec<Option<(Kind, Bytes)>> = vec![None, Some((Kind::Legacy, envelopes[2].clone())), Some((Kind::Legacy, envelopes[1].clone())), Some((Kind::Deposit { mint: 5, value: 0 }, envelopes[3].clone()))];
        let mut jobs = vec![];
        for s in specs {
            let a: Vec<Mac> = alpha.iter().filter(|m| mainnet_equiv(s).is_enabled_in(m.since())).cloned().collect();
            for seq in sequences(&a, depth) {
                jobs.push((s, seq));
            }
        }
        let accs: Vec<Acc> = jobs
            .par_chunks(16)
            .map(|ch| {
                let mut a = Acc::new();
                for (s, seq) in ch {
                    if ctx.over_budget() {
                        a.capped = true;
                        break;
                    }
                    let code = assemble(seq);
                    for kind in kinds {
                        for l1 in [L1::Zero, L1::Typical, L1::Huge] {
                            for (ei, env) in envelopes.iter().enumerate() {
                                // the envelope menu is crossed fully with the empty program and the one-macro programs only
                                if seq.len() > 1 && ei != 2 {
                                    continue;
                                }
                              for prev in prevs.iter() {
                                if prev.is_some() && seq.len() > 1 {
                                    continue;
                                }
                                let c = Case33 { spec: spec_name(*s), kind, l1, envelope: env.clone(), code: Bytes::from(code.clone()), program: format!("{seq:?}"), prev: prev.clone() };
                                let (v, sig) = check(&c);
                                a.evaluations += 1;
                                a.states += 1;
                                a.transitions += 1;
                                a.distinct(&(s, kind, l1, ei, prev.as_ref().map(|p| p.1.len()), &sig));
                                a.outcome(&sig);
                                if a.samples.is_empty() && !seq.is_empty() && l1 == L1::Typical {
                                    a.sample(|| json!({"case": c, "result": sig}));
                                }
                                for (k, m) in v {
                                    a.violation(Violation { key: k, msg: format!("{} {kind:?} L1={l1:?} envelope {} bytes program {seq:?} earlier transaction {:?}: {m}", c.spec, env.len(), prev.as_ref().map(|p| (p.0, p.1.len()))), case: json!({"c": c}) });
                                }
                              }
                            }
                        }
                    }
                }
                a
            })
            .collect();
        let acc = merge_all(accs);
        let meta = Meta {
            rule: format!("every macro program of depth <= {depth} over the fee-safe alphabet x 12 transaction kinds (legacy, with value, EIP-1559 uncapped / capped, tight gas, 4 deposits with and without mint and value, system deposit, a deposit that creates a contract from the program, a deposit below the intrinsic gas) x L1 block parameters {{zero, typical, huge}} x 4 enveloped-transaction byte strings (empty, 4 bytes, 120 mixed bytes, deposit-typed) on BEDROCK..ISTHMUS through the Optimism handler; programs of depth <= 1 also after each of 3 earlier, uncommitted transactions on the same Evm instance (two user transactions with other enveloped bytes, a deposit), where the result must also equal that of a fresh instance; distinct = distinct (spec, kind, L1 parameters, envelope, outcome)"),
            assumptions: vec![
                "programs never pay the sender, the beneficiary or a vault, so balance deltas of those accounts are fee flows only".into(),
                "the L1 cost is compared with an independent definition for Bedrock / Regolith / Ecotone; from Fjord (FastLZ size estimate) only conservation and the other components are decided".into(),
            ],
            bounds: json!({"depth": depth, "specs": 8, "kinds": 12}),
            min_distinct: 100,
            exhaustive: true,
            explanation: "sender debit = value moved + credits of beneficiary and the three vaults; each component equals its definition; deposits mint exactly and persist mint and nonce on failure".into(),
        };
        finish(ctx, acc, meta, &replay)
    }
    /// the mainnet fork an Optimism spec builds on (for opcode availability of the macros)
    fn mainnet_equiv(s: SpecId) -> SpecId {
        match s {
            SpecId::BEDROCK | SpecId::REGOLITH => SpecId::MERGE,
            SpecId::CANYON => SpecId::SHANGHAI,
            SpecId::ECOTONE | SpecId::FJORD | SpecId::GRANITE | SpecId::HOLOCENE => SpecId::CANCUN,
            _ => SpecId::PRAGUE,
        }
    }
}
