//! C09: gas used and fees paid follow the transaction gas rules — E2, invariants.
use crate::fw::*;
use crate::props::txinv::*;
use revm::primitives::SpecId;
use serde_json::{json, Value};

pub fn replay(case: &Value) -> Vec<Violation> {
    replay_with(case, &check_gas_rules)
}
pub fn run(ctx: &Ctx) -> i32 {
    let alpha = fee_safe_alphabet();
    let deep: Vec<(SpecId, usize)> = match ctx.tier {
        Tier::Quick => vec![(SpecId::PRAGUE, 3)],
        Tier::Thorough => crate::world::MAINNET_SPECS.iter().map(|s| (*s, 3)).collect(),
    };
    let acc = sweep(ctx, &alpha, 2, &deep, &check_gas_rules);
    let meta = Meta {
        rule: "every macro program of depth <= 2 on every spec and <= 3 on one spec (quick) / all specs (thorough) over the fee-safe alphabet (no program pays the sender or the coinbase) x 15 transaction variants (legacy, value, 1559, two tight gas limits, sender = coinbase, rewards off, access list, blob, create, set-code, zero price) x 19 specs".into(),
        assumptions: vec!["intrinsic and floor gas are recomputed from the EIP constants; blob gas price from the bigint fake exponential".into()],
        bounds: json!({"depth": "2 on every spec; 3 on one spec (quick) / on all 19 specs (thorough)", "macros": alpha.len(), "tx_variants": 15}),
        min_distinct: 300,
        exhaustive: true,
        explanation: "per-transaction inequalities and exact sender/coinbase balance deltas".into(),
    };
    finish(ctx, acc, meta, &replay)
}
