//! C15–C19: the block-state database (`State`) and bundles (`BundleState`) — E1 over histories of
//! real EVM transactions, balance increments / drains and merge schedules.
//!
//! One enumerator drives all five properties. A history is a sequence of actions from a fixed menu
//! (16 transactions, 3 balance increments, 2 drains) together with a merge schedule (after which
//! actions `merge_transitions` is called). The reference is a plain `BTreeMap` state to which every
//! returned `EvmState` is committed by the independent rule in `world::commit_plain`; snapshots of it
//! at the merge points are what changesets and reverts are compared with.
use crate::asm::{op, Asm};
use crate::exec::*;
use crate::fw::*;
use crate::testdb::TestDb;
use crate::world::*;
use rayon::prelude::*;
use revm::db::states::bundle_state::BundleRetention;
use revm::db::states::changes::{PlainStateReverts, StateChangeset};
use revm::db::states::reverts::RevertToSlot;
use revm::db::{BundleState, CacheDB, OriginalValuesKnown, State};
use revm::primitives::{address, Address, Bytes, SpecId, B256, KECCAK_EMPTY, U256};
use revm::{Database, DatabaseCommit, Evm};
use serde::{Deserialize, Serialize};
use serde_json::{json, Value};
use std::collections::BTreeMap;

// ------------------------------------------------------------------------------------------------
// configurations and world
#[derive(Clone, Copy, Debug, PartialEq, Eq, Hash, Serialize, Deserialize)]
pub struct Cfg {
    pub idx: u8,
}
impl Cfg {
    pub fn spec(self) -> SpecId {
        [SpecId::TANGERINE, SpecId::SHANGHAI, SpecId::CANCUN, SpecId::SHANGHAI][self.idx as usize]
    }
    pub fn state_clear(self) -> bool {
        self.idx != 0
    }
    pub fn create2(self) -> bool {
        self.idx != 0
    }
    /// T already exists in the database (with storage and balance) before the history starts
    pub fn predeployed(self) -> bool {
        self.idx == 3
    }
    pub fn describe(self) -> String {
        format!("{:?} state_clear={}{}", self.spec(), self.state_clear(), if self.predeployed() { " T-predeployed" } else { "" })
    }
}
pub const CFGS: [Cfg; 4] = [Cfg { idx: 0 }, Cfg { idx: 1 }, Cfg { idx: 2 }, Cfg { idx: 3 }];

pub const K: Address = address!("c0000000000000000000000000000000000000c1");
pub const F: Address = address!("f0000000000000000000000000000000000000f1");

fn if_nz(prefix: Asm, cond: impl Fn(Asm) -> Asm, body: impl Fn(Asm) -> Asm) -> Asm {
    let a = cond(prefix).op(op::ISZERO);
    let pos = a.0.len();
    let a = a.ops(&[0x61, 0, 0]).op(op::JUMPI);
    let mut a = body(a);
    let dest = a.0.len() as u16;
    a.0[pos + 1..pos + 3].copy_from_slice(&dest.to_be_bytes());
    a.op(op::JUMPDEST)
}
/// created contract: with calldata SSTORE(2, word0), without calldata SELFDESTRUCT(SENDER)
fn t_runtime() -> Vec<u8> {
    let a = if_nz(Asm::new(), |a| a.op(op::CALLDATASIZE), |a| a.push_u(0).op(op::CALLDATALOAD).push_u(2).op(op::SSTORE).op(op::STOP));
    a.push_addr(SENDER).op(op::SELFDESTRUCT).build()
}
/// init code: SSTORE(1, CALLVALUE), then returns the runtime code
fn t_init() -> Vec<u8> {
    let rt = t_runtime();
    let len = rt.len() as u64;
    let a = Asm::new().op(op::CALLVALUE).push_u(1).op(op::SSTORE);
    // CODECOPY(0, 16, len); RETURN(0, len): the prefix is 16 bytes long
    let a = a.push_u(len).push_u(16).push_u(0).op(op::CODECOPY).push_u(len).push_u(0).op(op::RETURN);
    let mut v = a.build();
    assert_eq!(v.len(), 16);
    v.extend_from_slice(&rt);
    v
}
pub fn t_addr(cfg: Cfg) -> Address {
    if cfg.create2() {
        F.create2(B256::ZERO, revm::primitives::keccak256(t_init()))
    } else {
        F.create(1)
    }
}
/// factory: word0 = endowment, word1 = call T first, word2 = create, word3 = call T afterwards
fn f_code(cfg: Cfg) -> Vec<u8> {
    let init = t_init();
    let t = t_addr(cfg);
    let build = |initoff: u16| -> Vec<u8> {
        let call_t = |a: Asm| a.call(op::CALL, U256::from(200_000), t, Some(U256::ZERO), 0, 0, 0, 0).op(op::POP);
        let a = if_nz(Asm::new(), |a| a.push_u(32).op(op::CALLDATALOAD), call_t);
        let a = if_nz(
            a,
            |a| a.push_u(64).op(op::CALLDATALOAD),
            |a| {
                let o = initoff.to_be_bytes();
                let a = a.push_u(init.len() as u64).ops(&[0x61, o[0], o[1]]).push_u(0).op(op::CODECOPY);
                let a = if cfg.create2() { a.push_u(0) } else { a };
                a.push_u(init.len() as u64).push_u(0).push_u(0).op(op::CALLDATALOAD).op(if cfg.create2() { op::CREATE2 } else { op::CREATE }).op(op::POP)
            },
        );
        let a = if_nz(a, |a| a.push_u(96).op(op::CALLDATALOAD), call_t);
        let mut v = a.op(op::STOP).build();
        v.extend_from_slice(&init);
        v
    };
    let len = build(0).len() - init.len();
    build(len as u16)
}
/// SSTORE(word0, word1)
fn k_code() -> Vec<u8> {
    Asm::new().push_u(32).op(op::CALLDATALOAD).push_u(0).op(op::CALLDATALOAD).op(op::SSTORE).op(op::STOP).build()
}
pub fn world(cfg: Cfg) -> Plain {
    let mut w = base_world();
    w.insert(K, PlainAcc::contract(&k_code()).with_balance(U256::from(10)).with_storage(1, 5).with_storage(2, 7));
    w.insert(F, PlainAcc::contract(&f_code(cfg)).with_balance(U256::from(100)));
    w.insert(DUST, PlainAcc::default());
    w.insert(STOR, PlainAcc::default().with_storage(1, 1));
    if cfg.predeployed() {
        w.insert(t_addr(cfg), PlainAcc::contract(&t_runtime()).with_balance(U256::from(3)).with_storage(1, 3).with_storage(2, 8));
    }
    w
}
pub fn addrs(cfg: Cfg) -> Vec<Address> {
    let mut v = vec![SENDER, COINBASE, K, F, DUST, STOR, EMPTY, t_addr(cfg)];
    if !cfg.create2() {
        v.extend([F.create(2), F.create(3), F.create(4)]);
    }
    v
}
const SLOTS: [u64; 4] = [0, 1, 2, 3];
pub const FORGETS: &str = "state-forgets-storage-of-codeless-account";

// ------------------------------------------------------------------------------------------------
// actions
#[derive(Clone, Copy, Debug, PartialEq, Eq, Hash, Serialize, Deserialize)]
pub enum Act {
    Tx(u8),
    Inc(u8),
    Drain(u8),
}
pub const N_TX: u8 = 18;
fn words(ws: &[u64]) -> Bytes {
    let mut v = vec![];
    for w in ws {
        v.extend_from_slice(&U256::from(*w).to_be_bytes::<32>());
    }
    Bytes::from(v)
}
pub fn tx_desc(i: u8) -> &'static str {
    [
        "1 wei to EMPTY",
        "touch DUST",
        "touch EMPTY",
        "K[1]=6",
        "K[1]=5 (original)",
        "K[1]=0",
        "K[3]=9",
        "create T",
        "create T with storage",
        "T selfdestructs",
        "T[2]=8",
        "destroy and recreate T in one tx",
        "create and destroy T in one tx",
        "1 wei to STOR",
        "1 wei to EMPTY, paying the coinbase",
        "K[2]=0",
        "1 wei to T",
        "T[2]=9",
    ][i as usize]
}
fn tx_case(cfg: Cfg, i: u8) -> TxCase {
    let mut c = TxCase::new(cfg.spec(), Plain::new());
    c.tx.gas_limit = 2_000_000;
    let t = t_addr(cfg);
    let (to, data, value): (Address, Bytes, u64) = match i {
        0 => (EMPTY, Bytes::new(), 1),
        1 => (DUST, Bytes::new(), 0),
        2 => (EMPTY, Bytes::new(), 0),
        3 => (K, words(&[1, 6]), 0),
        4 => (K, words(&[1, 5]), 0),
        5 => (K, words(&[1, 0]), 0),
        6 => (K, words(&[3, 9]), 0),
        7 => (F, words(&[0, 0, 1, 0]), 0),
        8 => (F, words(&[3, 0, 1, 0]), 0),
        9 => (t, Bytes::new(), 0),
        10 => (t, words(&[8]), 0),
        11 => (F, words(&[4, 1, 1, 0]), 0),
        12 => (F, words(&[0, 0, 1, 1]), 0),
        13 => (STOR, Bytes::new(), 1),
        14 => {
            c.tx.gas_price = U256::from(1);
            (EMPTY, Bytes::new(), 1)
        }
        15 => (K, words(&[2, 0]), 0),
        16 => (t, Bytes::new(), 1),
        17 => (t, words(&[9]), 0),
        _ => unreachable!(),
    };
    c.tx.to = Some(to);
    c.tx.data = data;
    c.tx.value = U256::from(value);
    c
}
fn inc_target(i: u8) -> (Address, u128) {
    [(EMPTY, 5u128), (K, 1), (DUST, 2)][i as usize]
}
fn drain_target(i: u8) -> Address {
    [K, DUST][i as usize]
}
pub fn alphabet() -> Vec<Act> {
    let mut v: Vec<Act> = (0..N_TX).map(Act::Tx).collect();
    v.extend((0..3).map(Act::Inc));
    v.extend((0..2).map(Act::Drain));
    v
}
pub fn histories(depth: usize) -> Vec<Vec<Act>> {
    let alpha = alphabet();
    let mut out: Vec<Vec<Act>> = vec![];
    let mut frontier: Vec<Vec<Act>> = vec![vec![]];
    for _ in 0..depth {
        let mut next = vec![];
        for h in &frontier {
            for a in &alpha {
                let mut t = h.clone();
                t.push(*a);
                next.push(t);
            }
        }
        out.extend(next.iter().cloned());
        frontier = next;
    }
    out
}

// ------------------------------------------------------------------------------------------------
// plain database model (separate account / storage / contract tables, as changesets address them)
#[derive(Clone, Debug, PartialEq, Eq, Default)]
pub struct PDb {
    pub accounts: BTreeMap<Address, (U256, u64, B256)>,
    pub storage: BTreeMap<Address, BTreeMap<U256, U256>>,
    pub contracts: BTreeMap<B256, Bytes>,
}
pub fn pdb_of(p: &Plain) -> PDb {
    let mut d = PDb::default();
    for (a, acc) in p {
        d.accounts.insert(*a, (acc.balance, acc.nonce, acc.code_hash()));
        let st: BTreeMap<U256, U256> = acc.storage.iter().filter(|(_, v)| !v.is_zero()).map(|(k, v)| (*k, *v)).collect();
        if !st.is_empty() {
            d.storage.insert(*a, st);
        }
        if !acc.code.is_empty() {
            d.contracts.insert(acc.code_hash(), acc.code.clone());
        }
    }
    d
}
fn set_slot(d: &mut PDb, a: Address, k: U256, v: U256) {
    if v.is_zero() {
        if let Some(m) = d.storage.get_mut(&a) {
            m.remove(&k);
            if m.is_empty() {
                d.storage.remove(&a);
            }
        }
    } else {
        d.storage.entry(a).or_default().insert(k, v);
    }
}
pub fn apply_changeset(d: &mut PDb, cs: &StateChangeset) {
    for (h, code) in &cs.contracts {
        d.contracts.insert(*h, code.original_bytes());
    }
    for st in &cs.storage {
        if st.wipe_storage {
            d.storage.remove(&st.address);
        }
        for (k, v) in &st.storage {
            set_slot(d, st.address, *k, *v);
        }
    }
    for (a, info) in &cs.accounts {
        match info {
            Some(i) => {
                d.accounts.insert(*a, (i.balance, i.nonce, i.code_hash));
            }
            None => {
                d.accounts.remove(a);
            }
        }
    }
}
/// undo one merged group: accounts to their listed info, storage per the documented reading of
/// unlisted slots (pre-bundle value if wiped, unchanged otherwise)
pub fn apply_revert(d: &mut PDb, pre_bundle: &PDb, revs: &PlainStateReverts, k: usize) {
    for st in &revs.storage[k] {
        if st.wiped {
            match pre_bundle.storage.get(&st.address) {
                Some(m) => {
                    d.storage.insert(st.address, m.clone());
                }
                None => {
                    d.storage.remove(&st.address);
                }
            }
        }
        for (slot, to) in &st.storage_revert {
            // `Destroyed` is not a value: revm documents it as "previous values can be found in database or
            // it can be zero", i.e. the slot reads as its pre-bundle value when the storage is marked wiped
            // (this is also how reth consumes it) and as zero otherwise
            let v = match to {
                RevertToSlot::Some(v) => *v,
                RevertToSlot::Destroyed if st.wiped => pre_bundle.storage.get(&st.address).and_then(|m| m.get(slot)).copied().unwrap_or_default(),
                RevertToSlot::Destroyed => U256::ZERO,
            };
            set_slot(d, st.address, *slot, v);
        }
    }
    for (a, info) in &revs.accounts[k] {
        match info {
            Some(i) => {
                d.accounts.insert(*a, (i.balance, i.nonce, i.code_hash));
            }
            None => {
                d.accounts.remove(a);
            }
        }
    }
}
/// None if `got` describes the same state as `want` (contracts: every code `want` needs is present)
pub fn pdb_diff(got: &PDb, want: &PDb) -> Option<String> {
    let keys: std::collections::BTreeSet<Address> = got.accounts.keys().chain(want.accounts.keys()).chain(got.storage.keys()).chain(want.storage.keys()).cloned().collect();
    for a in keys {
        let (g, w) = (got.accounts.get(&a), want.accounts.get(&a));
        if g != w {
            return Some(format!("account {}: got {:?}, expected {:?}", name(a), g, w));
        }
        let (gs, ws) = (got.storage.get(&a), want.storage.get(&a));
        if gs != ws {
            return Some(format!("storage of {}: got {:?}, expected {:?}", name(a), gs, ws));
        }
        if let Some((_, _, h)) = w {
            if *h != KECCAK_EMPTY && got.contracts.get(h) != want.contracts.get(h) {
                return Some(format!("code of {} (hash {h}) missing or different in the contracts table", name(a)));
            }
        }
    }
    None
}
pub fn name(a: Address) -> String {
    for (x, n) in [(SENDER, "SENDER"), (COINBASE, "COINBASE"), (K, "K"), (F, "F"), (DUST, "DUST"), (STOR, "STOR"), (EMPTY, "EMPTY")] {
        if a == x {
            return n.into();
        }
    }
    for c in CFGS {
        if a == t_addr(c) {
            return "T".into();
        }
    }
    format!("{a}")
}

// ------------------------------------------------------------------------------------------------
// drivers
pub type St = State<TestDb>;
pub fn new_state(cfg: Cfg, db: &Plain, bundle_update: bool, prestate: Option<BundleState>) -> St {
    let b = State::builder().with_database(TestDb::new(db));
    let b = if bundle_update { b.with_bundle_update() } else { b };
    let b = if cfg.state_clear() { b } else { b.without_state_clear() };
    let b = match prestate {
        Some(p) => b.with_bundle_prestate(p),
        None => b,
    };
    b.build()
}
/// reference step on the plain map; `st` is the state returned by the transaction (if any)
fn ref_inc(r: &mut Plain, a: Address, x: u128) {
    let e = r.entry(a).or_default();
    e.balance += U256::from(x);
}
fn ref_drain(r: &mut Plain, a: Address) {
    r.entry(a).or_default().balance = U256::ZERO;
}
/// one action on a State and on the reference; returns a rendering of the result
pub fn step_state(cfg: Cfg, st: &mut St, r: &mut Plain, act: Act) -> String {
    match act {
        Act::Tx(i) => {
            let case = tx_case(cfg, i);
            let res = {
                let mut evm = Evm::builder().with_db(&mut *st).with_env(case.env()).with_spec_id(cfg.spec()).build();
                evm.transact()
            };
            match res {
                Ok(rs) => {
                    commit_plain(r, &rs.state, cfg.spec());
                    st.commit(rs.state);
                    format!("{:?}", rs.result)
                }
                Err(e) => format!("error {e:?}"),
            }
        }
        Act::Inc(i) => {
            let (a, x) = inc_target(i);
            st.increment_balances([(a, x)]).unwrap();
            ref_inc(r, a, x);
            "inc".into()
        }
        Act::Drain(i) => {
            let a = drain_target(i);
            let got = st.drain_balances([a]).unwrap();
            let want = r.get(&a).map(|x| x.balance).unwrap_or_default();
            ref_drain(r, a);
            format!("drained {} (reference {want})", got[0])
        }
    }
}
/// the same action on a CacheDB (increments / drains are applied by hand through the public API)
pub fn step_cachedb(cfg: Cfg, db: &mut CacheDB<TestDb>, act: Act) -> String {
    match act {
        Act::Tx(i) => {
            let case = tx_case(cfg, i);
            let res = {
                let mut evm = Evm::builder().with_db(&mut *db).with_env(case.env()).with_spec_id(cfg.spec()).build();
                evm.transact()
            };
            match res {
                Ok(rs) => {
                    db.commit(rs.state);
                    format!("{:?}", rs.result)
                }
                Err(e) => format!("error {e:?}"),
            }
        }
        Act::Inc(i) => {
            let (a, x) = inc_target(i);
            let mut info = db.basic(a).unwrap().unwrap_or_default();
            info.balance += U256::from(x);
            db.insert_account_info(a, info);
            "inc".into()
        }
        Act::Drain(i) => {
            let a = drain_target(i);
            let mut info = db.basic(a).unwrap().unwrap_or_default();
            let had = info.balance;
            info.balance = U256::ZERO;
            db.insert_account_info(a, info);
            format!("drained {had} (reference {had})")
        }
    }
}
/// compare every query answer of `st` with the reference map; returns every difference (the known
/// STOR pattern does not hide other differences)
pub fn query_diffs(cfg: Cfg, st: &mut St, r: &Plain) -> Vec<(String, String)> {
    let mut out = vec![];
    for a in addrs(cfg) {
        let got = st.basic(a).unwrap();
        let want = r.get(&a);
        let g = got.as_ref().map(|i| (i.balance, i.nonce, i.code_hash));
        let w = want.map(|x| (x.balance, x.nonce, x.code_hash()));
        if g != w {
            out.push((format!("basic:{}", name(a)), format!("basic({}) = {:?}, reference {:?}", name(a), g, w)));
            continue;
        }
        if let (Some(i), Some(x)) = (&got, want) {
            let code = match &i.code {
                Some(c) => c.original_bytes(),
                None => st.code_by_hash(i.code_hash).unwrap().original_bytes(),
            };
            if code != x.code {
                out.push((format!("code:{}", name(a)), format!("code of {} = 0x{}, reference 0x{}", name(a), hex::encode(&code), hex::encode(&x.code))));
            }
        }
        for k in SLOTS {
            let gv = st.storage(a, U256::from(k)).unwrap();
            let wv = want.and_then(|x| x.storage.get(&U256::from(k)).copied()).unwrap_or_default();
            if gv != wv {
                // known pattern: a codeless, nonce-less account that nevertheless has storage in the wrapped
                // database is treated as fully in memory once it changes
                let key = if a == STOR && gv.is_zero() { FORGETS.to_string() } else { format!("storage:{}", name(a)) };
                out.push((key, format!("storage({}, {k}) = {gv}, reference {wv}", name(a))));
                break;
            }
        }
    }
    out
}
pub fn query_diff(cfg: Cfg, st: &mut St, r: &Plain) -> Option<(String, String)> {
    let mut d = query_diffs(cfg, st, r);
    // report an unknown difference first
    d.sort_by_key(|x| x.0 == FORGETS);
    d.into_iter().next()
}

#[derive(Clone, Debug, Serialize, Deserialize)]
pub struct HCase {
    pub cfg: Cfg,
    pub hist: Vec<Act>,
}
fn describe(h: &[Act]) -> String {
    h.iter()
        .map(|a| match a {
            Act::Tx(i) => tx_desc(*i).to_string(),
            Act::Inc(i) => format!("increment {} by {}", name(inc_target(*i).0), inc_target(*i).1),
            Act::Drain(i) => format!("drain {}", name(drain_target(*i))),
        })
        .collect::<Vec<_>>()
        .join("; ")
}

type Viol = (String, String);

// ---------------------------------------------------------------- C15
pub fn check_c15(c: &HCase, acc: &mut Acc) -> Vec<Viol> {
    let mut v = vec![];
    let w = world(c.cfg);
    for bundle_update in [true, false] {
        for interleave in [false, true] {
            let mut st = new_state(c.cfg, &w, bundle_update, None);
            let mut r = w.clone();
            for (i, a) in c.hist.iter().enumerate() {
                // without bundle tracking increments and drains still update the cache
                step_state(c.cfg, &mut st, &mut r, *a);
                acc.transitions += 1;
                if interleave || i + 1 == c.hist.len() {
                    if let Some((k, m)) = query_diff(c.cfg, &mut st, &r) {
                        let known = k == FORGETS;
                        if !(known && v.iter().any(|x: &Viol| x.0 == FORGETS)) {
                            v.push((k, format!("bundle_update={bundle_update} reads_after_every_action={interleave} after action {i}: {m}")));
                        }
                        if !known {
                            return v;
                        }
                    }
                }
            }
        }
    }
    // State and CacheDB give identical execution results
    let mut st = new_state(c.cfg, &w, true, None);
    let mut r = w.clone();
    let mut cdb = CacheDB::new(TestDb::new(&w));
    for (i, a) in c.hist.iter().enumerate() {
        let rs = step_state(c.cfg, &mut st, &mut r, *a);
        let rc = step_cachedb(c.cfg, &mut cdb, *a);
        acc.transitions += 2;
        acc.outcome(&rs.split(|c: char| c == '{' || c == '(').next().unwrap_or("").trim().to_string());
        if rs != rc {
            v.push(("state-vs-cachedb".into(), format!("action {i}: State gives {rs}, CacheDB gives {rc}")));
            return v;
        }
    }
    v
}

// ---------------------------------------------------------------- merged runs (C16–C19)
pub struct Merged {
    /// reference snapshots at group boundaries: refs[0] = pre-state, refs[g] = final
    pub refs: Vec<Plain>,
    pub bundle: BundleState,
}
#[derive(Clone, Copy, Debug, PartialEq)]
pub enum Ret {
    Reverts,
    Plain,
    /// alternate, starting with Reverts
    Mixed,
}
fn retention(ret: Ret, k: usize) -> BundleRetention {
    match ret {
        Ret::Reverts => BundleRetention::Reverts,
        Ret::Plain => BundleRetention::PlainState,
        Ret::Mixed => {
            if k % 2 == 0 {
                BundleRetention::Reverts
            } else {
                BundleRetention::PlainState
            }
        }
    }
}
/// run `hist` with a merge after action i iff bit i of `mask` is set (and always after the last)
pub fn run_merged(cfg: Cfg, st: &mut St, start: &Plain, hist: &[Act], mask: u32, ret: Ret, acc: &mut Acc) -> Merged {
    let mut r = start.clone();
    let mut refs = vec![r.clone()];
    let mut g = 0;
    for (i, a) in hist.iter().enumerate() {
        step_state(cfg, st, &mut r, *a);
        acc.transitions += 1;
        if mask & (1 << i) != 0 || i + 1 == hist.len() {
            st.merge_transitions(retention(ret, g));
            refs.push(r.clone());
            g += 1;
        }
    }
    if hist.is_empty() {
        st.merge_transitions(retention(ret, 0));
        refs.push(r.clone());
    }
    Merged { refs, bundle: st.take_bundle() }
}
fn clone_st(st: &St) -> St {
    State {
        cache: st.cache.clone(),
        database: st.database.clone(),
        transition_state: st.transition_state.clone(),
        bundle_state: st.bundle_state.clone(),
        use_preloaded_bundle: st.use_preloaded_bundle,
        block_hashes: st.block_hashes.clone(),
    }
}
/// `run_merged` for every merge mask of `hist`, sharing the executed prefix between masks: the State is
/// copied field by field where the schedules part (merge after action i, or not). `f` returns false to stop.
pub fn for_each_mask(cfg: Cfg, start: &Plain, hist: &[Act], ret: Ret, acc: &mut Acc, f: &mut dyn FnMut(u32, Merged) -> bool) {
    let mut st = new_state(cfg, start, true, None);
    if hist.is_empty() {
        let m = run_merged(cfg, &mut st, start, hist, 0, ret, acc);
        f(0, m);
        return;
    }
    struct Node {
        st: St,
        r: Plain,
        refs: Vec<Plain>,
        g: usize,
        mask: u32,
        i: usize,
    }
    let mut stack = vec![Node { st, r: start.clone(), refs: vec![start.clone()], g: 0, mask: 0, i: 0 }];
    while let Some(mut n) = stack.pop() {
        step_state(cfg, &mut n.st, &mut n.r, hist[n.i]);
        acc.transitions += 1;
        if n.i + 1 == hist.len() {
            n.st.merge_transitions(retention(ret, n.g));
            n.refs.push(n.r.clone());
            if !f(n.mask, Merged { refs: n.refs, bundle: n.st.take_bundle() }) {
                return;
            }
            continue;
        }
        // schedule that merges after action i
        let mut m = Node { st: clone_st(&n.st), r: n.r.clone(), refs: n.refs.clone(), g: n.g + 1, mask: n.mask | (1 << n.i), i: n.i + 1 };
        m.st.merge_transitions(retention(ret, n.g));
        m.refs.push(n.r.clone());
        // schedule that does not
        n.i += 1;
        stack.push(m);
        stack.push(n);
    }
}
fn masks(n: usize) -> Vec<u32> {
    if n == 0 {
        return vec![0];
    }
    // the last action is always followed by a merge; the others are free
    (0..(1u32 << (n - 1))).collect()
}
fn changeset_diff(b: &BundleState, pre: &PDb, want: &PDb) -> Option<String> {
    changeset_diff2(b, pre, want).map(|x| x.1)
}
/// (fails only when original values are declared known, message)
fn changeset_diff2(b: &BundleState, pre: &PDb, want: &PDb) -> Option<(bool, String)> {
    let mut out = vec![];
    for known in [OriginalValuesKnown::Yes, OriginalValuesKnown::No] {
        let cs = b.to_plain_state(known);
        let mut d = pre.clone();
        apply_changeset(&mut d, &cs);
        out.push(pdb_diff(&d, want).map(|m| format!("OriginalValuesKnown::{known:?}: {m}")));
    }
    match (out[0].take(), out[1].take()) {
        (Some(m), None) => Some((true, m)),
        (Some(m), Some(_)) => Some((false, m)),
        (None, Some(m)) => Some((false, m)),
        (None, None) => None,
    }
}

pub fn check_c16(c: &HCase, acc: &mut Acc) -> Vec<Viol> {
    let mut v = vec![];
    let w = world(c.cfg);
    let pre = pdb_of(&w);
    for ret in [Ret::Reverts, Ret::Plain, Ret::Mixed] {
        let mut traces = 0;
        for_each_mask(c.cfg, &w, &c.hist, ret, acc, &mut |mask, m| {
            traces += 1;
            if let Some(d) = changeset_diff(&m.bundle, &pre, &pdb_of(m.refs.last().unwrap())) {
                v.push(("changeset".into(), format!("merge mask {mask:#b}, retention {ret:?}: applying the changeset to the pre-state does not give the post-state: {d}")));
                return false;
            }
            true
        });
        acc.traces += traces;
        if !v.is_empty() {
            return v;
        }
    }
    v
}

/// unwind the reverts group by group from the final reference state
fn unwind_diff(b: &BundleState, pre: &PDb, refs: &[Plain]) -> Option<String> {
    let revs = b.reverts.to_plain_state_reverts();
    let g = refs.len() - 1;
    if revs.accounts.len() != g || revs.storage.len() != g {
        return Some(format!("{} revert groups recorded for {g} merged groups", revs.accounts.len()));
    }
    let mut cur = pdb_of(&refs[g]);
    // the contracts table is append-only (reverts carry code hashes, never code)
    for r in refs {
        cur.contracts.extend(pdb_of(r).contracts);
    }
    for k in (0..g).rev() {
        apply_revert(&mut cur, pre, &revs, k);
        if let Some(m) = pdb_diff(&cur, &pdb_of(&refs[k])) {
            return Some(format!("undoing group {k} (of {g}) with its recorded reverts does not give the state before it: {m}"));
        }
    }
    None
}

pub fn check_c17(c: &HCase, acc: &mut Acc) -> Vec<Viol> {
    let mut v = vec![];
    let w = world(c.cfg);
    let pre = pdb_of(&w);
    let mut traces = 0;
    for_each_mask(c.cfg, &w, &c.hist, Ret::Reverts, acc, &mut |mask, m| {
        traces += 1;
        if let Some(d) = unwind_diff(&m.bundle, &pre, &m.refs) {
            v.push(("reverts".into(), format!("merge mask {mask:#b}: {d}")));
            return false;
        }
        let g = m.refs.len() - 1;
        for j in 0..=g + 1 {
            let mut b = m.bundle.clone();
            b.revert(j);
            let keep = g.saturating_sub(j);
            if let Some((only_known, d)) = changeset_diff2(&b, &pre, &pdb_of(&m.refs[keep])) {
                if std::env::var("VERIF_DEBUG").is_ok() {
                    eprintln!("--- bundle before revert({j}):\n{:#?}\n--- after:\n{:#?}", m.bundle, b);
                }
                // BundleAccount::revert re-inserts the slots of a destroyed account with original == present
                let destroyed_storage = only_known && d.contains("storage of") && m.bundle.reverts.iter().rev().take(j).flatten().any(|(_, r)| r.wipe_storage);
                v.push((if destroyed_storage { "revert-n:original-values-lost-when-undoing-a-destruction".to_string() } else { "revert-n".to_string() }, format!("merge mask {mask:#b}: after revert({j}) of {g} groups the changeset does not describe the state after the first {keep} groups: {d}")));
                return false;
            }
            if b.reverts.len() != keep {
                v.push(("revert-n-len".into(), format!("merge mask {mask:#b}: after revert({j}) {} revert groups remain, expected {keep}", b.reverts.len())));
                return false;
            }
        }
        true
    });
    acc.traces += traces;
    v
}

pub fn check_c18(c: &HCase, acc: &mut Acc) -> Vec<Viol> {
    let mut v = vec![];
    let w = world(c.cfg);
    let pre = pdb_of(&w);
    let n = c.hist.len();
    for mask in masks(n) {
        // monolithic bundle
        let mut st = new_state(c.cfg, &w, true, None);
        let mono = run_merged(c.cfg, &mut st, &w, &c.hist, mask, Ret::Reverts, acc);
        let g = mono.refs.len() - 1;
        // take_n_reverts
        for m in 0..=g + 1 {
            let mut b = mono.bundle.clone();
            let taken = b.take_n_reverts(m);
            let k = m.min(g);
            if taken[..] != mono.bundle.reverts[..k] || b.reverts[..] != mono.bundle.reverts[k..] {
                v.push(("take-n-reverts".into(), format!("merge mask {mask:#b}: take_n_reverts({m}) of {g} groups returned {} and left {}", taken.len(), b.reverts.len())));
                return v;
            }
        }
        // split after every action that is followed by a merge (except the last); the bundle for the
        // second part is produced (a) by a fresh State over the database with the first part applied,
        // (b) by the same State continuing after take_bundle()
        for i in 0..n.saturating_sub(1) {
            if mask & (1 << i) == 0 {
                continue;
            }
            for continuing in [false, true] {
                let how = if continuing { "same State continuing after take_bundle" } else { "fresh State over the database after the first part" };
                let tag = if continuing { ":continuing-state" } else { "" };
                let mut st = new_state(c.cfg, &w, true, None);
                let first = run_merged(c.cfg, &mut st, &w, &c.hist[..=i], mask & ((1 << (i + 1)) - 1), Ret::Reverts, acc);
                let mid = first.refs.last().unwrap().clone();
                let second = if continuing {
                    run_merged(c.cfg, &mut st, &mid, &c.hist[i + 1..], mask >> (i + 1), Ret::Reverts, acc)
                } else {
                    let mut st2 = new_state(c.cfg, &mid, true, None);
                    run_merged(c.cfg, &mut st2, &mid, &c.hist[i + 1..], mask >> (i + 1), Ret::Reverts, acc)
                };
                acc.traces += 1;
                let mut refs = first.refs.clone();
                refs.extend(second.refs[1..].iter().cloned());
                if refs.len() != mono.refs.len() {
                    v.push(("machinery".into(), "split run has a different number of groups".into()));
                    return v;
                }
                let midp = pdb_of(&mid);
                // known pattern: the continuing State's cache still marks an account destroyed in the first
                // part as destroyed, so the second bundle wipes / reverts its storage as if the destruction
                // had happened inside it
                let earlier_destruction = continuing && first.bundle.state.values().any(|a| a.status.was_destroyed());
                let tag = if earlier_destruction { ":continuing-state-remembers-earlier-destruction" } else { tag };
                // the second bundle alone is a bundle over the state after the first part
                if let Some(d) = changeset_diff(&second.bundle, &midp, &pdb_of(refs.last().unwrap())) {
                    v.push((format!("second-half-changeset{tag}"), format!("merge mask {mask:#b}, split after action {i} ({how}): changeset of the bundle for the second part: {d}")));
                    return v;
                }
                if let Some(d) = unwind_diff(&second.bundle, &midp, &second.refs) {
                    v.push((format!("second-half-reverts{tag}"), format!("merge mask {mask:#b}, split after action {i} ({how}): reverts of the bundle for the second part: {d}")));
                    return v;
                }
                let mut ext = first.bundle.clone();
                ext.extend(second.bundle.clone());
                if let Some(d) = changeset_diff(&ext, &pre, &pdb_of(refs.last().unwrap())) {
                    v.push((format!("extend-changeset{tag}"), format!("merge mask {mask:#b}, split after action {i} ({how}): extended bundle's changeset: {d}")));
                    return v;
                }
                if let Some(d) = unwind_diff(&ext, &pre, &refs) {
                    if std::env::var("VERIF_DEBUG").is_ok() {
                        eprintln!("--- first reverts:\n{:#?}\n--- second reverts:\n{:#?}\n--- extended reverts:\n{:#?}", first.bundle.reverts.to_plain_state_reverts(), second.bundle.reverts.to_plain_state_reverts(), ext.reverts.to_plain_state_reverts());
                    }
                    v.push((format!("extend-reverts{tag}"), format!("merge mask {mask:#b}, split after action {i} ({how}): extended bundle's reverts: {d}")));
                    return v;
                }
                let mut pp = second.bundle.clone();
                pp.prepend_state(first.bundle.clone());
                if let Some(d) = changeset_diff(&pp, &pre, &pdb_of(refs.last().unwrap())) {
                    v.push((format!("prepend-state{tag}"), format!("merge mask {mask:#b}, split after action {i} ({how}): newer bundle with the older state prepended: {d}")));
                    return v;
                }
            }
        }
    }
    v
}

pub fn check_c19(c: &HCase, acc: &mut Acc) -> Vec<Viol> {
    let mut v = vec![];
    let w = world(c.cfg);
    let pre = pdb_of(&w);
    let n = c.hist.len();
    // every split point: prefix produces the prestate bundle, suffix is the continuation
    for i in 0..=n {
        let mut st0 = new_state(c.cfg, &w, true, None);
        let first = run_merged(c.cfg, &mut st0, &w, &c.hist[..i], 0, Ret::Reverts, acc);
        let mid = first.refs.last().unwrap().clone();
        let mut sa = new_state(c.cfg, &w, true, Some(first.bundle.clone()));
        let mut sb = new_state(c.cfg, &mid, true, None);
        let (mut ra, mut rb) = (mid.clone(), mid.clone());
        for (j, a) in c.hist[i..].iter().enumerate() {
            let xa = step_state(c.cfg, &mut sa, &mut ra, *a);
            let xb = step_state(c.cfg, &mut sb, &mut rb, *a);
            acc.transitions += 2;
            if xa != xb {
                v.push(("prestate-result".into(), format!("prestate = first {i} actions; continuation action {j}: over the preloaded bundle {xa}, over the merged database {xb}")));
                return v;
            }
        }
        acc.traces += 1;
        // reads
        if let Some((k, m)) = query_diff(c.cfg, &mut sa, &ra) {
            v.push((if k == FORGETS { k } else { format!("prestate-read:{k}") }, format!("prestate = first {i} actions, then the rest: State over the preloaded bundle: {m}")));
            return v;
        }
        if let Some((k, m)) = query_diff(c.cfg, &mut sb, &rb) {
            v.push((if k == FORGETS { k } else { format!("merged-read:{k}") }, format!("prestate = first {i} actions, then the rest: State over the merged database: {m}")));
            return v;
        }
        // resulting changes
        sa.merge_transitions(BundleRetention::Reverts);
        sb.merge_transitions(BundleRetention::Reverts);
        let (ba, bb) = (sa.take_bundle(), sb.take_bundle());
        let want = pdb_of(&ra);
        if let Some(d) = changeset_diff(&ba, &pre, &want) {
            v.push(("prestate-changes".into(), format!("prestate = first {i} actions: bundle of the State over the preloaded bundle, applied to the original database: {d}")));
            return v;
        }
        if let Some(d) = changeset_diff(&bb, &pdb_of(&mid), &want) {
            v.push(("merged-changes".into(), format!("prestate = first {i} actions: bundle of the State over the merged database: {d}")));
            return v;
        }
    }
    v
}

// ------------------------------------------------------------------------------------------------
pub fn check_one(prop: &str, c: &HCase, acc: &mut Acc) -> Vec<Viol> {
    match prop {
        "C15" => check_c15(c, acc),
        "C16" => check_c16(c, acc),
        "C17" => check_c17(c, acc),
        "C18" => check_c18(c, acc),
        "C19" => check_c19(c, acc),
        _ => unreachable!(),
    }
}
pub fn replay_for(prop: &'static str) -> impl Fn(&Value) -> Vec<Violation> {
    move |case: &Value| {
        let c: HCase = serde_json::from_value(case["hcase"].clone()).unwrap();
        let mut acc = Acc::new();
        let r = catch(|| check_one(prop, &c, &mut acc));
        match r {
            Ok(v) => v.into_iter().map(|(k, m)| Violation { key: k, msg: m, case: case.clone() }).collect(),
            Err(p) => vec![Violation { key: "panic".into(), msg: format!("panic: {p}"), case: case.clone() }],
        }
    }
}
/// non-initial starting points: short histories that leave T or K in the less common statuses
/// (destroyed-and-changed by two routes, created with two slots, a contract with a new and a zeroed slot)
pub fn prefixes() -> Vec<Vec<Act>> {
    vec![
        vec![Act::Tx(12), Act::Tx(8)],
        vec![Act::Tx(8), Act::Tx(9), Act::Tx(8)],
        vec![Act::Tx(8), Act::Tx(10)],
        vec![Act::Tx(6), Act::Tx(5)],
    ]
}
pub fn run_family(ctx: &Ctx, prop: &'static str, depth: usize, rule: &str, explanation: &str) -> i32 {
    let hs = histories(depth);
    let mut jobs: Vec<HCase> = vec![];
    for cfg in CFGS {
        jobs.push(HCase { cfg, hist: vec![] });
        for h in &hs {
            jobs.push(HCase { cfg, hist: h.clone() });
        }
    }
    // from the non-initial starting points: every continuation two levels shallower
    if depth >= 3 {
        let cont = histories(depth - 2);
        for cfg in CFGS {
            for p in prefixes() {
                for h in &cont {
                    let mut full = p.clone();
                    full.extend(h.iter().cloned());
                    if full.len() > depth {
                        jobs.push(HCase { cfg, hist: full });
                    }
                }
            }
        }
    }
    // shortest histories first, so that a wall-clock cap leaves complete depths below it
    jobs.sort_by_key(|j| j.hist.len());
    let accs: Vec<Acc> = jobs
        .par_chunks(16)
        .map(|ch| {
            let mut a = Acc::new();
            for c in ch {
                if ctx.over_budget() {
                    a.capped = true;
                    break;
                }
                let r = catch(|| {
                    let mut local = Acc::new();
                    let v = check_one(prop, c, &mut local);
                    (v, local)
                });
                a.evaluations += 1;
                a.states += 1;
                a.bump(&format!("histories_done_depth_{}", c.hist.len()), 1);
                match r {
                    Ok((v, local)) => {
                        a.merge(local);
                        a.distinct(&(c.cfg, &c.hist, v.len()));
                        if a.samples.is_empty() && c.hist.len() == depth {
                            a.sample(|| json!({"config": c.cfg.describe(), "history": describe(&c.hist)}));
                        }
                        for (k, m) in v {
                            a.violation(Violation { key: k, msg: format!("{} [{}]: {m}", c.cfg.describe(), describe(&c.hist)), case: json!({"hcase": c, "described": describe(&c.hist)}) });
                        }
                    }
                    Err(p) => a.violation(Violation { key: "panic".into(), msg: format!("{} [{}]: panic: {p}", c.cfg.describe(), describe(&c.hist)), case: json!({"hcase": c, "described": describe(&c.hist)}) }),
                }
            }
            a
        })
        .collect();
    let mut acc = merge_all(accs);
    for d in 0..=depth {
        acc.bump(&format!("histories_total_depth_{d}"), CFGS.len() as u64 * (alphabet().len() as u64).pow(d as u32));
    }
    let meta = Meta {
        rule: format!("every history of <= {depth} actions over a 23-action menu (18 transactions: value to an absent account, touches of an existing-empty and an absent account, storage writes that change / restore / zero / add a slot, CREATE2 (CREATE before Constantinople) of a contract with and without storage, its self-destruct and a later write to it, destroy-and-recreate and create-and-destroy inside one transaction, value to a codeless account with storage, a fee-paying transfer, value to the created contract's address; 3 balance increments; 2 balance drains) on 4 configurations (TANGERINE without state clear, SHANGHAI, CANCUN, SHANGHAI with the contract T already deployed with storage), plus, from 4 non-initial starting histories (T destroyed-and-recreated by two routes, T with two slots, a contract with a new and a zeroed slot), every continuation of <= depth-2 actions, executed through Evm::transact over the real State; {rule}; distinct = distinct (configuration, history)"),
        assumptions: vec![
            "reference = plain map committed by an independent rule (touched only; self-destructed => deleted; created => storage cleared; EIP-161 removal when state clear is active); balance increments / drains applied literally".into(),
            "changesets and reverts are applied to a plain database model with separate account / storage / contract tables, following their documented reading (wipe flag first; unlisted slots of a wiped revert read as pre-bundle values)".into(),
        ],
        bounds: json!({"depth": depth, "actions": alphabet().len(), "configs": 4, "prefixes": 4}),
        min_distinct: 100,
        exhaustive: true,
        explanation: explanation.into(),
    };
    finish(ctx, acc, meta, &replay_for(prop))
}
