use crate::fw::*;
pub mod c03;
pub mod c04;
pub mod c05;
pub mod c06;
pub mod c07;
pub mod c07b;
pub mod c08;
pub mod c09;
pub mod c10;
pub mod txinv;
pub mod c11;
pub mod c11b;
pub mod c12;
pub mod c13;
pub mod c14;
pub mod c20;
pub mod c21;
pub mod c22;
pub mod c25;
pub mod c26;
pub mod c27;
pub mod c28;
pub mod c31;
pub mod c32;
pub mod c34;
pub mod insp;
pub mod c29 {
    pub use super::insp::{replay29 as replay, run29 as run};
}
pub mod c30 {
    pub use super::insp::{replay30 as replay, run30 as run};
}

macro_rules! table {
    ($ctx:expr, $rp:expr, $( $id:literal => $m:ident ),* $(,)?) => {
        match $ctx.prop.as_str() {
            $( $id => match $rp {
                Some(p) => run_replay($id, p, &$m::replay),
                None => $m::run($ctx),
            }, )*
            other => { eprintln!("unknown property {other}"); 2 }
        }
    };
}

pub fn dispatch(ctx: &Ctx, replay: Option<&str>) -> i32 {
    table!(ctx, replay,
        "C03" => c03,
        "C04" => c04,
        "C05" => c05,
        "C06" => c06,
        "C07" => c07,
        "C08" => c08,
        "C09" => c09,
        "C10" => c10,
        "C11" => c11,
        "C12" => c12,
        "C13" => c13,
        "C14" => c14,
        "C20" => c20,
        "C21" => c21,
        "C22" => c22,
        "C25" => c25,
        "C26" => c26,
        "C27" => c27,
        "C28" => c28,
        "C29" => c29,
        "C30" => c30,
        "C31" => c31,
        "C32" => c32,
        "C34" => c34,
    )
}
