use crate::fw::*;
pub mod c01;
pub mod c01v;
pub mod c02;
pub mod c03;
pub mod c04;
pub mod c05;
pub mod c06;
pub mod c07;
pub mod c07b;
pub mod c08;
pub mod c09;
pub mod c10;
pub mod txinv;
pub mod c11;
pub mod c11b;
pub mod c12;
pub mod c13;
pub mod c14;
pub mod c15;
macro_rules! family {
    ($m:ident, $id:literal, $dq:expr, $dt:expr, $rule:literal, $expl:literal) => {
        pub mod $m {
            use crate::fw::*;
            pub fn run(ctx: &Ctx) -> i32 {
                super::c15::run_family(ctx, $id, ctx.tier.pick($dq, $dt), $rule, $expl)
            }
            pub fn replay(case: &serde_json::Value) -> Vec<Violation> {
                super::c15::replay_for($id)(case)
            }
        }
    };
}
family!(p15, "C15", 4, 5, "after the history (and, in a second mode, after every action) basic / storage (4 slots) / code of 8-11 addresses are read from State built with and without bundle tracking and compared with the reference; the same history on CacheDB must give identical ExecutionResults", "State reads equal a plain reference state; State and CacheDB execute identically");
family!(p16, "C16", 4, 5, "for every merge schedule (merge or not after each action; always after the last) and retention (Reverts, PlainState, alternating) the taken bundle's to_plain_state(Yes|No) is applied to the pre-history plain database and compared with the reference post-state", "changeset(pre-state) == post-state for every merge schedule and both OriginalValuesKnown settings");
family!(p17, "C17", 4, 5, "for every merge schedule with revert retention, the recorded reverts are applied group by group backwards from the reference post-state and must give the reference state before each group; for every j, revert(j) must leave a bundle whose changeset gives the reference state after the first g-j groups", "reverts unwind to the exact reference state before each merged group; revert(j) equals the prefix bundle");
family!(p18, "C18", 3, 4, "for every merge schedule and every split point at a merge, bundle(1..i).extend(bundle(i+1..n)) is checked like a monolithic bundle (changeset and group-by-group unwinding), take_n_reverts(m) for every m must return exactly the first m groups and leave the rest, and the newer bundle with the older state prepended must describe the final state", "extend / take_n_reverts / prepend_state preserve what the bundles describe");
family!(p19, "C19", 4, 5, "for every split of the history into a prefix (whose merged bundle B becomes the prestate) and a continuation, State(D).with_bundle_prestate(B) and State(D with B applied) must give identical results for every continuation action, identical reads afterwards (both equal to the reference) and bundles whose changesets give the reference final state", "State over a preloaded bundle behaves like State over the merged database");
pub mod c20;
pub mod c21;
pub mod c22;
pub mod c23;
pub mod c24 {
    pub use super::c23::{replay24 as replay, run24 as run};
}
pub mod c25;
pub mod c26;
pub mod c27;
pub mod c28;
pub mod c31;
pub mod c32;
pub mod c33;
pub mod c34;
pub mod insp;
pub mod c29 {
    pub use super::insp::{replay29 as replay, run29 as run};
}
pub mod c30 {
    pub use super::insp::{replay30 as replay, run30 as run};
}

macro_rules! table {
    ($ctx:expr, $rp:expr, $( $id:literal => $m:ident ),* $(,)?) => {
        match $ctx.prop.as_str() {
            $( $id => match $rp {
                Some(p) => run_replay($id, p, &$m::replay),
                None => $m::run($ctx),
            }, )*
            other => { eprintln!("unknown property {other}"); 2 }
        }
    };
}

pub fn dispatch(ctx: &Ctx, replay: Option<&str>) -> i32 {
    table!(ctx, replay,
        "C01" => c01,
        "C02" => c02,
        "C03" => c03,
        "C04" => c04,
        "C05" => c05,
        "C06" => c06,
        "C07" => c07,
        "C08" => c08,
        "C09" => c09,
        "C10" => c10,
        "C11" => c11,
        "C12" => c12,
        "C13" => c13,
        "C14" => c14,
        "C15" => p15,
        "C16" => p16,
        "C17" => p17,
        "C18" => p18,
        "C19" => p19,
        "C20" => c20,
        "C21" => c21,
        "C22" => c22,
        "C23" => c23,
        "C24" => c24,
        "C25" => c25,
        "C26" => c26,
        "C27" => c27,
        "C28" => c28,
        "C29" => c29,
        "C30" => c30,
        "C31" => c31,
        "C32" => c32,
        "C33" => c33,
        "C34" => c34,
    )
}
