//! C26: EOF decoding round-trips and validation protects execution — E2 over a container grammar.
//!
//! Containers are produced by an encoder written here from the EOF specification (independent of
//! revm's `encode`), from all instruction sequences up to a depth bound over an EOF instruction
//! alphabet, section/type/sub-container/data menus, and then mutated (every single-byte substitution
//! from a small set at every position, every truncation, one appended byte).
//! Oracle: decode never panics; Ok => encode_slow() == input; validation verdict is stable; every
//! accepted container executes (as deployed code / as init code, OSAKA) without panic and with the
//! instruction pointer inside its code section after every step.
use crate::exec::*;
use crate::fw::*;
use crate::gen::intrinsic_simple;
use crate::props::c25::{runner, Runner};
use crate::world::*;
use rayon::prelude::*;
use revm::interpreter::analysis::{validate_raw_eof_inner, CodeType};
use revm::primitives::{Bytes, Eof, SpecId, TxKind, U256};
use serde_json::{json, Value};

#[derive(Clone, Debug)]
pub struct Cont {
    pub types: Vec<(u8, u8, u16)>,
    pub codes: Vec<Vec<u8>>,
    pub containers: Vec<Vec<u8>>,
    pub data: Vec<u8>,
    /// data size declared in the header (may exceed data.len(): truncated data)
    pub data_hdr: u16,
}
impl Cont {
    /// EIP-3540 layout, written from the specification
    pub fn raw(&self) -> Vec<u8> {
        let mut b = vec![0xef, 0x00, 0x01];
        b.push(0x01);
        b.extend_from_slice(&((self.types.len() * 4) as u16).to_be_bytes());
        b.push(0x02);
        b.extend_from_slice(&(self.codes.len() as u16).to_be_bytes());
        for c in &self.codes {
            b.extend_from_slice(&(c.len() as u16).to_be_bytes());
        }
        if !self.containers.is_empty() {
            b.push(0x03);
            b.extend_from_slice(&(self.containers.len() as u16).to_be_bytes());
            for c in &self.containers {
                b.extend_from_slice(&(c.len() as u16).to_be_bytes());
            }
        }
        b.push(0x04);
        b.extend_from_slice(&self.data_hdr.to_be_bytes());
        b.push(0x00);
        for (i, o, m) in &self.types {
            b.push(*i);
            b.push(*o);
            b.extend_from_slice(&m.to_be_bytes());
        }
        for c in &self.codes {
            b.extend_from_slice(c);
        }
        for c in &self.containers {
            b.extend_from_slice(c);
        }
        b.extend_from_slice(&self.data);
        b
    }
    pub fn simple(code: Vec<u8>, max_stack: u16) -> Cont {
        Cont { types: vec![(0, 0x80, max_stack)], codes: vec![code], containers: vec![], data: vec![], data_hdr: 0 }
    }
}

/// instruction alphabet (each entry is the full encoding of one instruction)
pub fn alphabet() -> Vec<Vec<u8>> {
    let mut v: Vec<Vec<u8>> = vec![
        vec![0x00],       // STOP
        vec![0x5f],       // PUSH0
        vec![0x50],       // POP
        vec![0x01],       // ADD
        vec![0x60, 0x01], // PUSH1 1
        vec![0x60, 0x20], // PUSH1 32
        {
            let mut v = vec![0x7f]; // PUSH32 2^256-1
            v.extend_from_slice(&[0xff; 32]);
            v
        },
        vec![0x67, 0x80, 0, 0, 0, 0, 0, 0, 0], // PUSH8 2^63
        vec![0x5b],       // NOP (JUMPDEST)
        vec![0xe4],       // RETF
        vec![0xd0],       // DATALOAD
        vec![0xd2],       // DATASIZE
        vec![0xd3],       // DATACOPY
        vec![0xf3],       // RETURN
        vec![0xfd],       // REVERT
        vec![0xfe],       // INVALID
        vec![0xf7],       // RETURNDATALOAD
        vec![0xf8],       // EXTCALL
        vec![0xf9],       // EXTDELEGATECALL
        vec![0xfb],       // EXTSTATICCALL
        vec![0x56],       // JUMP (not valid in EOF)
        vec![0x5a],       // GAS (not valid in EOF)
        vec![0xff],       // SELFDESTRUCT (not valid in EOF)
        vec![0xe2, 0x00, 0x00, 0x00], // RJUMPV max_index 0, offset 0
        vec![0xe2, 0x01, 0x00, 0x00, 0x00, 0x01], // RJUMPV two targets 0, +1
        vec![0xe2, 0x00],             // RJUMPV truncated
    ];
    for off in [-4i16, -3, -1, 0, 1, 2, 3] {
        let o = off.to_be_bytes();
        v.push(vec![0xe0, o[0], o[1]]); // RJUMP
        v.push(vec![0xe1, o[0], o[1]]); // RJUMPI
    }
    for idx in [0u16, 1, 2] {
        let i = idx.to_be_bytes();
        v.push(vec![0xe3, i[0], i[1]]); // CALLF
        v.push(vec![0xe5, i[0], i[1]]); // JUMPF
    }
    for n in [0u8, 1] {
        v.push(vec![0xe6, n]); // DUPN
        v.push(vec![0xe7, n]); // SWAPN
        v.push(vec![0xec, n]); // EOFCREATE
        v.push(vec![0xee, n]); // RETURNCONTRACT
    }
    for n in [0x00u8, 0x01, 0x10] {
        v.push(vec![0xe8, n]); // EXCHANGE
    }
    for off in [0u16, 1, 0x20, 0xffff] {
        let o = off.to_be_bytes();
        v.push(vec![0xd1, o[0], o[1]]); // DATALOADN
    }
    v
}
/// a reduced alphabet for the second and third code sections
fn small_alphabet() -> Vec<Vec<u8>> {
    vec![
        vec![0x00],
        vec![0x5f],
        vec![0x50],
        vec![0x01],
        vec![0xe4],
        vec![0xfe],
        vec![0xe3, 0x00, 0x01],
        vec![0xe3, 0x00, 0x02],
        vec![0xe5, 0x00, 0x00],
        vec![0xe5, 0x00, 0x01],
        vec![0xe5, 0x00, 0x02],
        vec![0xe0, 0x00, 0x00],
        vec![0xe1, 0x00, 0x01],
        vec![0xe6, 0x00],
    ]
}
pub fn seqs(alpha: &[Vec<u8>], depth: usize) -> Vec<Vec<u8>> {
    let mut out: Vec<Vec<u8>> = vec![];
    let mut frontier: Vec<Vec<u8>> = vec![vec![]];
    for _ in 0..depth {
        let mut next = vec![];
        for s in &frontier {
            for a in alpha {
                let mut t = s.clone();
                t.extend_from_slice(a);
                next.push(t);
            }
        }
        out.extend(next.iter().cloned());
        frontier = next;
    }
    out
}

/// sub-container menu: minimal runtime container, minimal init container (returns sub-container 0),
/// garbage
pub fn sub_runtime() -> Vec<u8> {
    Cont::simple(vec![0x00], 0).raw()
}
pub fn sub_init() -> Vec<u8> {
    let mut c = Cont::simple(vec![0x5f, 0x5f, 0xee, 0x00], 2);
    c.containers = vec![sub_runtime()];
    c.raw()
}

/// init container whose header declares 4 data bytes and carries 1
fn sub_init_truncated() -> Vec<u8> {
    let mut c = Cont::simple(vec![0x5f, 0x5f, 0xee, 0x00], 2);
    c.containers = vec![sub_runtime()];
    c.data = vec![0x01];
    c.data_hdr = 4;
    c.raw()
}
/// a header that lists the container kind with a count of zero
fn zero_container_count(body_len: usize) -> Vec<u8> {
    let mut b = vec![0xef, 0x00, 0x01, 0x01, 0x00, 0x04, 0x02, 0x00, 0x01, 0x00, 0x01, 0x03, 0x00, 0x00, 0x04, 0x00, 0x00, 0x00];
    b.extend_from_slice(&[0x00, 0x80, 0x00, 0x00, 0x00, 0xaa, 0xbb, 0xcc][..body_len.min(8)]);
    b
}

#[derive(Default)]
pub struct Out {
    /// C26 accumulator (decode / validate / execute)
    pub acc: Acc,
    /// executions of accepted containers only (what C25 counts)
    pub exec: Acc,
}

const MODES: [(Option<CodeType>, &str); 2] = [(Some(CodeType::ReturnOrStop), "runtime"), (Some(CodeType::ReturnContract), "initcode")];

/// everything the property asks of one byte string
fn check_raw(raw: &[u8], evm: &mut Runner, out: &mut Out, execute: bool) {
    let a = &mut out.acc;
    a.evaluations += 1;
    a.states += 1;
    let bytes = Bytes::copy_from_slice(raw);
    let case = || json!({"eof": hex::encode(raw)});
    let dec = catch(|| Eof::decode(bytes.clone()));
    let dec = match dec {
        Err(p) => {
            a.violation(Violation { key: "decode-panic".into(), msg: format!("Eof::decode panicked on {}: {p}", hex::encode(raw)), case: case() });
            return;
        }
        Ok(d) => d,
    };
    a.transitions += 1;
    match &dec {
        Ok(eof) => {
            let enc = catch(|| eof.encode_slow());
            match enc {
                Err(p) => a.violation(Violation { key: "encode-panic".into(), msg: format!("encode_slow panicked: {p}"), case: case() }),
                Ok(e) if e.as_ref() != raw => a.violation(Violation {
                    key: "roundtrip-differs".into(),
                    msg: format!("decoded container re-encodes to {} instead of {}", hex::encode(&e), hex::encode(raw)),
                    case: case(),
                }),
                Ok(_) => {}
            }
        }
        Err(_) => {}
    }
    let mut verdicts = vec![];
    for (mode, name) in MODES {
        let v1 = catch(|| validate_raw_eof_inner(bytes.clone(), mode).map(|_| ()));
        let v2 = catch(|| validate_raw_eof_inner(bytes.clone(), mode).map(|_| ()));
        a.transitions += 2;
        match (&v1, &v2) {
            (Err(p), _) | (_, Err(p)) => {
                a.violation(Violation { key: "validate-panic".into(), msg: format!("validation ({name}) panicked: {p}"), case: case() });
                verdicts.push(false);
                continue;
            }
            (Ok(x), Ok(y)) => {
                if x != y {
                    a.violation(Violation { key: "verdict-unstable".into(), msg: format!("validation ({name}) returned {x:?} then {y:?}"), case: case() });
                }
                if x.is_ok() && dec.is_err() {
                    a.violation(Violation { key: "accepted-undecodable".into(), msg: format!("validation ({name}) accepted bytes that Eof::decode rejects"), case: case() });
                }
                verdicts.push(x.is_ok());
                let o = match (x, &dec) {
                    (Ok(()), _) => format!("accepted/{name}"),
                    (Err(e), Ok(_)) => format!("decoded,rejected/{name}/{e:?}"),
                    (Err(e), Err(_)) => format!("undecodable/{e:?}"),
                };
                a.outcome(&o);
                a.distinct(&(o, raw.len()));
            }
        }
    }
    if !execute {
        return;
    }
    // accepted containers must execute safely
    for (i, (_, name)) in MODES.iter().enumerate() {
        if !verdicts[i] {
            continue;
        }
        for (calldata, extra) in [(Bytes::new(), 100_000u64), (Bytes::from(vec![0xabu8; 33]), 100_000), (Bytes::new(), 7)] {
            let (obs, viol) = if i == 0 { exec_deployed(evm, raw, &calldata, extra) } else { exec_create(evm, raw, &calldata, extra) };
            out.exec.evaluations += 1;
            out.exec.states += 1;
            out.exec.transitions += obs.1.max(1);
            out.exec.outcome(&format!("eof-{name}:{}", obs.0));
            out.exec.distinct(&(name, &obs.0, obs.1, obs.2));
            out.acc.transitions += obs.1.max(1);
            out.acc.traces += 1;
            out.acc.outcome(&format!("executed-{name}:{}", obs.0));
            out.acc.distinct(&(name, &obs.0, obs.1, obs.2));
            if out.acc.samples.len() < 4 && obs.1 >= 3 {
                out.acc.samples.push(json!({"container": hex::encode(raw), "run_as": name, "result": obs.0, "instructions": obs.1}));
            }
            for (k, m) in viol {
                let vio = Violation { key: k, msg: format!("validated container {} run as {name}: {m}", hex::encode(raw)), case: json!({"eof": hex::encode(raw), "mode": name, "calldata": hex::encode(&calldata), "extra_gas": extra}) };
                out.exec.violation(vio.clone());
                out.acc.violation(vio);
            }
        }
    }
}

/// (class, steps, gas_used), violations
fn exec_deployed(evm: &mut Runner, raw: &[u8], calldata: &Bytes, extra: u64) -> ((String, u64, u64), Vec<(String, String)>) {
    let c = crate::props::c25::Case { spec: "OSAKA".into(), code: Bytes::copy_from_slice(raw), calldata: calldata.clone(), extra_gas: extra };
    let (o, mut v) = crate::props::c25::run_on(evm, SpecId::OSAKA, &c);
    v.extend(executed_inside_immediates(raw, &o.eof_pcs));
    ((o.class, o.steps, o.gas_used), v)
}

/// For every instruction with immediates X and every immediate byte k of it: bodies in which a
/// conditional jump (RJUMPI forward, RJUMPI backward, a one-entry RJUMPV) targets that byte. The
/// immediates are NOPs / zeros, so that a validator that lets one through produces an execution that
/// continues (and is seen by the boundary oracle) instead of stopping by accident.
fn jumps_into_immediates() -> Vec<Vec<u8>> {
    // (encoding, stack inputs, stack outputs)
    let mut targets: Vec<(Vec<u8>, u16, u16)> = vec![
        (vec![0x60, 0x5b], 0, 1),
        (vec![0x61, 0x5b, 0x5b], 0, 1),
        ({ let mut v = vec![0x7f]; v.extend_from_slice(&[0x5b; 32]); v }, 0, 1),
        (vec![0xe0, 0x00, 0x00], 0, 0),
        (vec![0xe1, 0x00, 0x00], 1, 0),
        (vec![0xe2, 0x00, 0x00, 0x00], 1, 0),
        (vec![0xe2, 0x01, 0x00, 0x00, 0x00, 0x00], 1, 0),
        (vec![0xe2, 0x00, 0x00, 0x5b], 1, 0),
        (vec![0xe6, 0x00], 1, 2),
        (vec![0xe7, 0x00], 2, 2),
        (vec![0xe8, 0x00], 3, 3),
        (vec![0xd1, 0x00, 0x00], 0, 1),
    ];
    // the low byte of a one-entry table that is itself an instruction with an immediate
    targets.push((vec![0xe2, 0x00, 0x00, 0x60], 1, 0));
    let mut out = vec![];
    for (x, ins, outs) in &targets {
        for k in 1..x.len() {
            let pushes = |n: u16| vec![0x5fu8; n as usize];
            // RJUMPI forward: [inputs] PUSH0 RJUMPI(+k) X STOP
            {
                let mut b = pushes(*ins + 1);
                b.extend_from_slice(&[0xe1, 0x00, k as u8]);
                b.extend_from_slice(x);
                b.push(0x00);
                out.push((b, (*ins + 1).max(*outs)));
            }
            // one-entry RJUMPV forward
            {
                let mut b = pushes(*ins + 1);
                b.extend_from_slice(&[0xe2, 0x00, 0x00, k as u8]);
                b.extend_from_slice(x);
                b.push(0x00);
                out.push((b, (*ins + 1).max(*outs)));
            }
            // RJUMPI backward: [inputs] X PUSH0 RJUMPI(-(3 + len - k)) STOP
            {
                let mut b = pushes(*ins);
                b.extend_from_slice(x);
                let back = -((3 + x.len() - k) as i16);
                let o = back.to_be_bytes();
                b.push(0x5f);
                b.extend_from_slice(&[0xe1, o[0], o[1]]);
                b.push(0x00);
                out.push((b, (*ins).max(*outs + 1)));
            }
        }
    }
    let mut raws = vec![];
    for (body, ms) in out {
        for m in [ms, ms + 1] {
            let mut c = Cont::simple(body.clone(), m);
            c.data = vec![0x22; 32];
            c.data_hdr = 32;
            raws.push(c.raw());
        }
    }
    raws
}

/// Containers that list byte-identical sub-containers and use them in both roles (EOFCREATE target =
/// init code, RETURNCONTRACT target = deployed code), in both orders and through one shared index; the
/// shared bytes range over code that is legal in neither / one / the other role, with complete and
/// truncated data.
fn same_subcontainer_two_roles() -> Vec<Vec<u8>> {
    let neutral = |data: Vec<u8>, hdr: u16| {
        let mut c = Cont::simple(vec![0xfe], 0);
        c.data = data;
        c.data_hdr = hdr;
        c.raw()
    };
    let subs: Vec<Vec<u8>> = vec![neutral(vec![], 0), neutral(vec![0x01], 4), neutral(vec![0x01; 4], 4), sub_runtime(), sub_init(), sub_init_truncated()];
    let mut raws = vec![];
    for x in &subs {
        for (create_idx, ret_idx, n) in [(0u8, 1u8, 2usize), (1, 0, 2), (0, 0, 1)] {
            // init container: EOFCREATE[create_idx]; POP; RETURNCONTRACT[ret_idx]
            let mut c = Cont::simple(vec![0x5f, 0x5f, 0x5f, 0x5f, 0xec, create_idx, 0x50, 0x5f, 0x5f, 0xee, ret_idx], 4);
            c.containers = vec![x.clone(); n];
            raws.push(c.raw());
            // RETURNCONTRACT first in the byte order (a conditional jump decides at run time)
            let mut c = Cont::simple(vec![0x5f, 0xe1, 0x00, 0x04, 0x5f, 0x5f, 0xee, ret_idx, 0x5f, 0x5f, 0x5f, 0x5f, 0xec, create_idx, 0x50, 0x5f, 0x5f, 0xee, ret_idx], 4);
            c.containers = vec![x.clone(); n];
            raws.push(c.raw());
        }
        // runtime container creating from two identical sub-containers
        let mut c = Cont::simple(vec![0x5f, 0x5f, 0x5f, 0x5f, 0xec, 0x00, 0x50, 0x5f, 0x5f, 0x5f, 0x5f, 0xec, 0x01, 0x50, 0x00], 4);
        c.containers = vec![x.clone(), x.clone()];
        raws.push(c.raw());
    }
    raws
}

/// number of immediate bytes of the EOF instruction at `i` (independent table: EIP-3540 family)
fn imm_len(code: &[u8], i: usize) -> usize {
    match code[i] {
        op @ 0x60..=0x7f => (op - 0x5f) as usize,
        0xe0 | 0xe1 | 0xe3 | 0xe5 | 0xd1 => 2,
        0xe2 => 1 + 2 * (code.get(i + 1).copied().unwrap_or(0) as usize + 1),
        0xe6 | 0xe7 | 0xe8 | 0xec | 0xee => 1,
        _ => 0,
    }
}
/// instruction starts of one code section by a linear sweep
fn boundaries(code: &[u8]) -> Vec<bool> {
    let mut b = vec![false; code.len()];
    let mut i = 0;
    while i < code.len() {
        b[i] = true;
        i += 1 + imm_len(code, i);
    }
    b
}
/// every instruction the outermost frame executed must start at an instruction boundary of its section
fn executed_inside_immediates(raw: &[u8], pcs: &[(u64, usize, usize)]) -> Vec<(String, String)> {
    let Some(top) = pcs.iter().map(|p| p.0).min() else { return vec![] };
    let Ok(eof) = Eof::decode(Bytes::copy_from_slice(raw)) else { return vec![] };
    let bounds: Vec<Vec<bool>> = eof.body.code_section.iter().map(|c| boundaries(c)).collect();
    for (d, sec, pc) in pcs {
        if *d != top {
            continue;
        }
        match bounds.get(*sec).and_then(|b| b.get(*pc)) {
            Some(true) => {}
            Some(false) => return vec![("executed-inside-immediate".into(), format!("pc {pc} of code section {sec} was executed as an instruction, but it is an immediate byte of the preceding instruction"))],
            None => return vec![("executed-outside-section".into(), format!("pc {pc} of code section {sec} was executed; the section has {} bytes", bounds.get(*sec).map(|b| b.len()).unwrap_or(0)))],
        }
    }
    vec![]
}
fn exec_create(evm: &mut Runner, raw: &[u8], calldata: &Bytes, extra: u64) -> ((String, u64, u64), Vec<(String, String)>) {
    let spec = SpecId::OSAKA;
    let mut data = raw.to_vec();
    data.extend_from_slice(calldata);
    let intrinsic = intrinsic_simple(spec, &data, true, 0, 0, 0).max(crate::gen::floor_simple(spec, &data));
    let gas_limit = intrinsic + extra;
    {
        let tx = &mut evm.context.evm.inner.env.tx;
        tx.transact_to = TxKind::Create;
        tx.data = Bytes::from(data);
        tx.gas_limit = gas_limit;
        tx.value = U256::ZERO;
    }
    evm.context.external = crate::monitor::Mon::new(false);
    evm.context.external.trace_eof_pcs = true;
    let r = catch(|| evm.transact());
    let mon = std::mem::take(&mut evm.context.external);
    let mut v = executed_inside_immediates(raw, &mon.eof_pcs);
    let class;
    let mut gas_used = 0;
    match r {
        Err(p) => {
            v.push(("panic".to_string(), format!("execution panicked: {p}")));
            *evm = runner(spec);
            return (("panic".into(), mon.step_count, 0), v);
        }
        Ok(Err(e)) => {
            class = format!("error:{e:?}");
            v.push(("no-defined-outcome".into(), format!("create transaction returned {e:?}")));
        }
        Ok(Ok(rs)) => {
            gas_used = rs.result.gas_used();
            class = match &rs.result {
                revm::primitives::ExecutionResult::Success { reason, .. } => format!("Success/{reason:?}"),
                revm::primitives::ExecutionResult::Revert { .. } => "Revert".into(),
                revm::primitives::ExecutionResult::Halt { reason, .. } => format!("Halt/{reason:?}"),
            };
            if gas_used > gas_limit {
                v.push(("gas-used-above-limit".into(), format!("gas_used {gas_used} > gas_limit {gas_limit}")));
            }
        }
    }
    for ip in &mon.ip_violations {
        v.push(("instruction-pointer-out-of-code".into(), ip.clone()));
    }
    if evm.context.evm.journaled_state.depth() != 0 {
        v.push(("depth-not-zero".into(), "journal depth not zero after the transaction".into()));
    }
    ((class, mon.step_count, gas_used), v)
}

const SUBST: [u8; 10] = [0x00, 0x01, 0x02, 0x03, 0x04, 0x7f, 0x80, 0xe0, 0xee, 0xff];

/// all mutants of one container: substitutions, truncations, one appended byte
fn mutants(raw: &[u8]) -> Vec<Vec<u8>> {
    let mut v = vec![];
    for i in 0..raw.len() {
        for s in SUBST {
            if raw[i] != s {
                let mut m = raw.to_vec();
                m[i] = s;
                v.push(m);
            }
        }
        v.push(raw[..i].to_vec());
    }
    for s in [0x00u8, 0xff] {
        let mut m = raw.to_vec();
        m.push(s);
        v.push(m);
    }
    v
}

/// the container families; each job is a closure-free description so that it can be sharded
#[derive(Clone)]
enum Job {
    /// single code section: body, with every max_stack 0..=4, data / sub-container menus
    Single { body: Vec<u8>, rich: bool },
    /// two or three sections
    Multi { s0: Vec<u8>, s1: Vec<u8>, s2: Option<Vec<u8>>, t1: (u8, u8), t2: (u8, u8) },
    /// mutants of a base container
    Mutate { base: Vec<u8> },
    /// raw byte strings
    Raw { first: Option<u8> },
    /// complete containers checked as they are
    Exact { raws: Vec<Vec<u8>> },
}

fn run_job(j: &Job, evm: &mut Runner, out: &mut Out, execute: bool) {
    match j {
        Job::Single { body, rich } => {
            for ms in 0..=4u16 {
                let mut c = Cont::simple(body.clone(), ms);
                if *rich {
                    // data menu x sub-container menu
                    for (data, hdr) in [(vec![], 0u16), (vec![0x11], 1), (vec![0x22; 32], 32), (vec![0x33], 32)] {
                        for subs in [vec![], vec![sub_runtime()], vec![sub_init()], vec![sub_runtime(), sub_init()], vec![vec![0xef, 0x00, 0x01, 0x00]]] {
                            c.data = data.clone();
                            c.data_hdr = hdr;
                            c.containers = subs;
                            check_raw(&c.raw(), evm, out, execute);
                        }
                    }
                } else {
                    check_raw(&c.raw(), evm, out, execute);
                    // with one runtime sub-container and 32 bytes of data, so that EOFCREATE / RETURNCONTRACT /
                    // DATALOADN have something to refer to
                    c.data = vec![0x22; 32];
                    c.data_hdr = 32;
                    c.containers = vec![sub_init()];
                    check_raw(&c.raw(), evm, out, execute);
                    c.containers = vec![sub_runtime()];
                    check_raw(&c.raw(), evm, out, execute);
                }
            }
        }
        Job::Multi { s0, s1, s2, t1, t2 } => {
            for m0 in 0..=2u16 {
                for m1 in 0..=3u16 {
                    let m2s: Vec<u16> = if s2.is_some() { vec![0, 1, 2] } else { vec![0] };
                    for m2 in m2s {
                        let mut c = Cont { types: vec![(0, 0x80, m0), (t1.0, t1.1, m1)], codes: vec![s0.clone(), s1.clone()], containers: vec![], data: vec![], data_hdr: 0 };
                        if let Some(s2) = s2 {
                            c.types.push((t2.0, t2.1, m2));
                            c.codes.push(s2.clone());
                        }
                        check_raw(&c.raw(), evm, out, execute);
                    }
                }
            }
        }
        Job::Exact { raws } => {
            for r in raws {
                out.acc.bump("explicit_family_containers", 1);
                check_raw(r, evm, out, execute);
            }
        }
        Job::Mutate { base } => {
            for m in mutants(base) {
                check_raw(&m, evm, out, execute);
            }
        }
        Job::Raw { first } => match first {
            None => {
                check_raw(&[], evm, out, execute);
                for b in 0..=255u8 {
                    check_raw(&[b], evm, out, execute);
                }
            }
            Some(f) => {
                for b in 0..=255u8 {
                    check_raw(&[*f, b], evm, out, execute);
                    if *f == 0xef {
                        for c in 0..=255u8 {
                            check_raw(&[*f, b, c], evm, out, execute);
                        }
                    }
                }
            }
        },
    }
}

fn jobs(tier: Tier) -> Vec<Job> {
    let mut v = vec![];
    let alpha = alphabet();
    let depth = tier.pick(3, 4);
    for body in seqs(&alpha, depth) {
        v.push(Job::Single { body, rich: false });
    }
    // the full data x sub-container menu on short bodies
    for body in seqs(&alpha, 2) {
        v.push(Job::Single { body, rich: true });
    }
    // multi-section containers
    let small = small_alphabet();
    let s0s = seqs(&small, 2);
    let s1s = seqs(&small, tier.pick(2, 3));
    let types = [(0u8, 0u8), (1, 0), (0, 1), (1, 1), (0, 0x80), (2, 1)];
    for s0 in &s0s {
        for s1 in &s1s {
            for t1 in types {
                v.push(Job::Multi { s0: s0.clone(), s1: s1.clone(), s2: None, t1, t2: (0, 0) });
            }
        }
    }
    // three sections: depth 1-2 bodies
    let s_short = seqs(&small, 1);
    for s0 in &s0s {
        for s1 in &s_short {
            for s2 in &s_short {
                for t1 in [(0u8, 0u8), (0, 0x80), (1, 1)] {
                    for t2 in [(0u8, 0u8), (0, 0x80)] {
                        v.push(Job::Multi { s0: s0.clone(), s1: s1.clone(), s2: Some(s2.clone()), t1, t2 });
                    }
                }
            }
        }
    }
    // mutants of well-formed containers of every shape
    let mut bases: Vec<Vec<u8>> = vec![sub_runtime(), sub_init()];
    {
        // EOFCREATE of each kind of sub-container (value, salt, input offset, input size on the stack)
        for sub in [sub_init(), sub_init_truncated(), sub_runtime()] {
            let mut c = Cont::simple(vec![0x5f, 0x5f, 0x5f, 0x5f, 0xec, 0x00, 0x50, 0x00], 4);
            c.containers = vec![sub];
            c.data = vec![0x44; 4];
            c.data_hdr = 4;
            bases.push(c.raw());
        }
        // container kind present with a count of zero, followed by 0..=8 body bytes
        bases.push(zero_container_count(8));
        let c2 = Cont { types: vec![(0, 0x80, 0), (0, 0, 0)], codes: vec![vec![0xe3, 0x00, 0x01, 0x00], vec![0xe4]], containers: vec![], data: vec![], data_hdr: 0 };
        bases.push(c2.raw());
        let c3 = Cont { types: vec![(0, 0x80, 1), (1, 1, 1), (0, 0x80, 0)], codes: vec![vec![0x5f, 0xe3, 0x00, 0x01, 0xe5, 0x00, 0x02], vec![0xe4], vec![0x00]], containers: vec![sub_runtime()], data: vec![0x55], data_hdr: 2 };
        bases.push(c3.raw());
        let c4 = Cont::simple(vec![0x5f, 0xe1, 0x00, 0x01, 0x00, 0xd1, 0x00, 0x00, 0x50, 0x00], 1);
        let mut c4 = c4;
        c4.data = vec![0x66; 32];
        c4.data_hdr = 32;
        bases.push(c4.raw());
    }
    if tier == Tier::Thorough {
        for body in seqs(&alpha, 1) {
            let mut c = Cont::simple(body, 1);
            c.containers = vec![sub_runtime()];
            bases.push(c.raw());
        }
    }
    for b in bases {
        v.push(Job::Mutate { base: b });
    }
    v.push(Job::Exact { raws: jumps_into_immediates() });
    v.push(Job::Exact { raws: same_subcontainer_two_roles() });
    v.push(Job::Raw { first: None });
    for f in 0..=255u8 {
        v.push(Job::Raw { first: Some(f) });
    }
    v
}

pub fn sweep(ctx: &Ctx, execute: bool) -> Out {
    let js = jobs(ctx.tier);
    let outs: Vec<Out> = js
        .par_chunks(256)
        .map(|ch| {
            let mut out = Out::default();
            let mut evm = runner(SpecId::OSAKA);
            for j in ch {
                if ctx.over_budget() {
                    out.acc.capped = true;
                    out.exec.capped = true;
                    break;
                }
                run_job(j, &mut evm, &mut out, execute);
            }
            out
        })
        .collect();
    let mut o = Out::default();
    for x in outs {
        o.acc.merge(x.acc);
        o.exec.merge(x.exec);
    }
    o
}

/// for C25: executions of validated containers only
pub fn exec_validated(ctx: &Ctx) -> Acc {
    sweep(ctx, true).exec
}

pub fn replay_exec(case: &Value) -> Vec<Violation> {
    replay(case)
}
pub fn replay(case: &Value) -> Vec<Violation> {
    let raw = hex::decode(case["eof"].as_str().unwrap_or("")).unwrap_or_default();
    let mut out = Out::default();
    let mut evm = runner(SpecId::OSAKA);
    check_raw(&raw, &mut evm, &mut out, true);
    out.acc.violations.into_iter().map(|mut v| {
        v.case = case.clone();
        v
    }).collect()
}

pub fn run(ctx: &Ctx) -> i32 {
    let o = sweep(ctx, true);
    let mut acc = o.acc;
    acc.bump("executions_of_accepted_containers", o.exec.evaluations);
    let meta = Meta {
        rule: format!("containers encoded by an independent EIP-3540 encoder: one code section with every instruction sequence of depth <= {} over a {}-instruction EOF alphabet (RJUMP/RJUMPI offsets -4..3, RJUMPV, CALLF/JUMPF 0..2, DUPN/SWAPN/EXCHANGE, DATALOADN 0/1/32/65535, EOFCREATE/RETURNCONTRACT 0..1, EXT*CALL, disabled opcodes, truncated immediates) x max_stack 0..=4 x {{no, runtime, init}} sub-container; depth <= 2 bodies x 4 data shapes (incl. truncated) x 5 sub-container lists; 2-section containers (depth <= 2 x depth <= {} over 14 instructions x 6 type signatures x max_stack products) and 3-section containers; every single-byte substitution from 10 values at every position, every truncation and one appended byte of 6+ well-formed containers; for each of 13 immediate-carrying instructions and each of its immediate bytes, bodies whose RJUMPI (forward, backward) or one-entry RJUMPV targets that byte; containers listing byte-identical sub-containers (6 kinds, complete and truncated data) used as EOFCREATE and RETURNCONTRACT target in both orders; every byte string of length <= 2 and every ef-prefixed string of length 3; distinct = distinct (verdict class, length) and (execution outcome, steps, gas)", ctx.tier.pick(3, 4), alphabet().len(), ctx.tier.pick(2, 3)),
        assumptions: vec![
            "validation is run in both modes (runtime: first section may STOP/RETURN; initcode: must RETURNCONTRACT); a container accepted as runtime code is executed as deployed code, one accepted as initcode is executed as a creation transaction, under OSAKA".into(),
            "execution oracle = C25's: no panic (debug assertions on), instruction pointer inside the current code section after every step, defined result, gas_used <= gas_limit; plus: every pc the outermost frame executes is an instruction start of its code section according to an independent linear sweep (immediate sizes from EIP-3540/4200/4750/663/7480/7620)".into(),
        ],
        bounds: json!({"single_section_depth": ctx.tier.pick(3, 4), "alphabet": alphabet().len(), "max_stack": "0..=4"}),
        min_distinct: 30,
        exhaustive: true,
        explanation: "decode/encode round trip on raw bytes, stable verdicts, safe execution of everything accepted".into(),
    };
    finish(ctx, acc, meta, &replay)
}
