//! C10: a static call cannot change state — E2 + step/frame monitors.
use crate::asm::{op, Asm};
use crate::exec::*;
use crate::fw::*;
use crate::gen::alphabet_for;
use crate::macros::*;
use crate::monitor::Mon;
use crate::world::*;
use rayon::prelude::*;
use revm::interpreter::InstructionResult;
use revm::primitives::{address, Address, SpecId, U256};
use serde_json::{json, Value};

pub const T: Address = address!("b0000000000000000000000000000000000000c1"); // code under test
pub const MID: Address = address!("b0000000000000000000000000000000000000c2"); // intermediate hop

fn alphabet() -> Vec<Mac> {
    use CallKind::*;
    let c = |kind, to, value| Mac::Call { kind, to, value, gas: 60_000, out_len: 0 };
    vec![
        Mac::Sstore(0, 1),
        Mac::Sstore(1, 5), // writes the value the slot already holds
        Mac::Sstore(1, 0),
        Mac::Tstore(0, 1),
        Mac::Tstore(0, 0),
        Mac::Log(0),
        Mac::Log(2),
        Mac::Create { init: Init::Empty, value: 0 },
        Mac::Create2 { init: Init::Code1, value: 0, salt: 3 },
        Mac::SelfDestruct(BOK),
        Mac::SelfDestructSelf,
        c(Call, BOK, 1),
        c(Call, BOK, 0),
        c(Call, EMPTY, 0),
        c(Call, BWRITE, 0),
        c(DelegateCall, BWRITE, 0),
        c(CallCode, BWRITE, 0),
        c(CallCode, BOK, 1),
        c(StaticCall, BWRITE, 0),
        c(Call, BSD, 0),
        c(Call, BLOG, 0),
        c(Call, BNEST, 0),
        Mac::Sload(1),
        Mac::Tload(0),
        Mac::Balance(EMPTY),
        Mac::Mstore(0),
        Mac::Return(1),
        Mac::Revert(1),
        Mac::Stop,
    ]
}

#[derive(Clone, Copy, Debug, PartialEq, Eq, Hash)]
pub enum Route {
    Direct,
    Via(CallKind),
    /// OSAKA: the driver is an EOF contract that issues EXTSTATICCALL (to the code under test, or to a
    /// legacy hop that CALLs it)
    ExtStatic,
    ExtStaticViaCall,
}
pub fn routes() -> Vec<Route> {
    vec![Route::Direct, Route::Via(CallKind::Call), Route::Via(CallKind::CallCode), Route::Via(CallKind::DelegateCall), Route::Via(CallKind::StaticCall)]
}

pub fn build_case(spec: SpecId, route: Route, code: &[u8]) -> TxCase {
    let mut w = std_world();
    w.insert(T, PlainAcc::contract(code).with_balance(U256::from(10)).with_storage(1, 5));
    let entry = match route {
        Route::Direct | Route::ExtStatic => T,
        Route::ExtStaticViaCall => {
            let mid = Asm::new().call(op::CALL, U256::from(400_000), T, Some(U256::ZERO), 0, 0, 0, 0).op(op::POP).op(op::STOP).build();
            w.insert(MID, PlainAcc::contract(&mid).with_balance(U256::from(10)).with_storage(1, 5));
            MID
        }
        Route::Via(k) => {
            let v = if k.has_value() { Some(U256::ZERO) } else { None };
            let mid = Asm::new().call(k.opcode(), U256::from(400_000), T, v, 0, 0, 0, 0).op(op::POP).op(op::STOP).build();
            w.insert(MID, PlainAcc::contract(&mid).with_balance(U256::from(10)).with_storage(1, 5));
            MID
        }
    };
    let a = if matches!(route, Route::ExtStatic | Route::ExtStaticViaCall) {
        // EOF driver: EXTSTATICCALL(entry, 0, 0); POP; SSTORE(7, 7); STOP
        let mut code = vec![0x5f, 0x5f, 0x73];
        code.extend_from_slice(entry.as_slice());
        code.extend_from_slice(&[0xfb, 0x50, 0x60, 0x07, 0x60, 0x07, 0x55, 0x00]);
        crate::props::c26::Cont::simple(code, 3).raw()
    } else {
        Asm::new().call(op::STATICCALL, U256::from(600_000), entry, None, 0, 0, 0, 0).op(op::POP).sstore(7, 7).op(op::STOP).build()
    };
    w.insert(A, PlainAcc::contract(&a).with_balance(U256::from(10)));
    let mut c = TxCase::new(spec, w);
    c.tx.gas_limit = 2_000_000;
    c
}

pub const EOFW: Address = revm::primitives::address!("b0000000000000000000000000000000000000e1"); // EOF contract: SSTORE(0,1); STOP

/// stack-neutral EOF instruction groups (bytes, peak stack height)
fn eof_alphabet() -> Vec<(&'static str, Vec<u8>, u16)> {
    let ext = |opc: u8, to: Address, value: Option<u8>| {
        let mut c = vec![];
        let mut peak = 3;
        if let Some(v) = value {
            if v == 0 {
                c.push(0x5f);
            } else {
                c.extend_from_slice(&[0x60, v]);
            }
            peak = 4;
        }
        c.extend_from_slice(&[0x5f, 0x5f, 0x73]);
        c.extend_from_slice(to.as_slice());
        c.extend_from_slice(&[opc, 0x50]);
        (c, peak)
    };
    let e = |n: &'static str, (c, p): (Vec<u8>, u16)| (n, c, p);
    vec![
        ("sstore(0,1)", vec![0x60, 0x01, 0x5f, 0x55], 2),
        ("sstore(1,5)", vec![0x60, 0x05, 0x60, 0x01, 0x55], 2),
        ("tstore(0,1)", vec![0x60, 0x01, 0x5f, 0x5d], 2),
        ("log0", vec![0x5f, 0x5f, 0xa0], 2),
        ("log1", vec![0x5f, 0x5f, 0x5f, 0xa1], 3),
        e("extcall BOK value 1", ext(0xf8, BOK, Some(1))),
        e("extcall BOK value 0", ext(0xf8, BOK, Some(0))),
        e("extcall EMPTY value 1", ext(0xf8, EMPTY, Some(1))),
        e("extcall EOF writer", ext(0xf8, EOFW, Some(0))),
        e("extdelegatecall EOF writer", ext(0xf9, EOFW, None)),
        e("extstaticcall BWRITE", ext(0xfb, BWRITE, None)),
        ("eofcreate", vec![0x5f, 0x5f, 0x5f, 0x5f, 0xec, 0x00, 0x50], 4),
        ("sload(1)", vec![0x60, 0x01, 0x54, 0x50], 1),
    ]
}
/// gas handed to the static call by the legacy driver: plenty, and values around the points where an
/// EXTCALL with value (2 600 cold + 9 000 transfer) can no longer give its callee the 2 300 + 5 000 minimum
const STATIC_GAS: [u64; 8] = [600_000, 19_000, 14_000, 13_000, 12_000, 11_650, 9_100, 2_400];

/// OSAKA: EOF code as the code under static mode
pub fn eof_case(seq: &[usize], gas: Option<u64>) -> TxCase {
    let al = eof_alphabet();
    let mut code = vec![];
    let mut peak = 0;
    let mut uses_create = false;
    for i in seq {
        code.extend_from_slice(&al[*i].1);
        peak = peak.max(al[*i].2);
        uses_create |= al[*i].0 == "eofcreate";
    }
    code.push(0x00);
    let mut c = crate::props::c26::Cont::simple(code, peak);
    if uses_create {
        c.containers = vec![crate::props::c26::sub_init()];
    }
    let t = c.raw();
    if let Err(e) = revm::interpreter::analysis::validate_raw_eof_inner(t.clone().into(), Some(revm::interpreter::analysis::CodeType::ReturnOrStop)) {
        eprintln!("MACHINERY: C10 built an invalid EOF container ({e:?})");
        std::process::exit(2);
    }
    let mut w = std_world();
    w.insert(T, PlainAcc::contract(&t).with_balance(U256::from(10)).with_storage(1, 5));
    w.insert(EOFW, PlainAcc::contract(&crate::props::c26::Cont::simple(vec![0x60, 0x01, 0x5f, 0x55, 0x00], 2).raw()).with_storage(1, 5));
    let a = match gas {
        Some(g) => Asm::new().call(op::STATICCALL, U256::from(g), T, None, 0, 0, 0, 0).op(op::POP).sstore(7, 7).op(op::STOP).build(),
        None => {
            let mut code = vec![0x5f, 0x5f, 0x73];
            code.extend_from_slice(T.as_slice());
            code.extend_from_slice(&[0xfb, 0x50, 0x60, 0x07, 0x60, 0x07, 0x55, 0x00]);
            crate::props::c26::Cont::simple(code, 3).raw()
        }
    };
    w.insert(A, PlainAcc::contract(&a).with_balance(U256::from(10)));
    let mut c = TxCase::new(SpecId::OSAKA, w);
    c.tx.gas_limit = 2_000_000;
    c
}

const OK_RESULTS: [InstructionResult; 6] = [
    InstructionResult::Continue,
    InstructionResult::Stop,
    InstructionResult::Return,
    InstructionResult::SelfDestruct,
    InstructionResult::CallOrCreate,
    InstructionResult::ReturnContract,
];

pub fn check_case(case: &TxCase) -> (Vec<(String, String)>, u64, u64, String) {
    let mut m = Mon::new(true);
    m.check_static = true;
    let (o, mon, _) = exec_monitored_cfg(case, m);
    let mut v = vec![];
    if o.class != Class::Success {
        v.push(("driver-failed".into(), format!("{:?} {}", o.class, o.reason)));
    }
    let mut write_attempts = 0u64;
    for s in mon.steps.iter().filter(|s| s.is_static) {
        let need = match s.op {
            0x55 | 0x5d => 2,
            0xa0..=0xa4 => 2 + (s.op - 0xa0) as usize,
            0xf0 => 3,
            0xf5 => 4,
            0xff => 1,
            0xf1 => 7,
            // EOF: EXTCALL (target, input offset, input size, value) and EOFCREATE
            0xf8 if s.is_eof => 4,
            0xec if s.is_eof => 4,
            _ => continue,
        };
        if s.stack_len_before < need {
            continue;
        }
        if s.op == 0xf1 && s.stack.get(2).map(|x| x.is_zero()).unwrap_or(true) {
            continue;
        }
        if s.op == 0xf8 && s.stack.get(3).map(|x| x.is_zero()).unwrap_or(true) {
            continue;
        }
        write_attempts += 1;
        if OK_RESULTS.contains(&s.result) {
            v.push((
                format!("static-write-allowed:0x{:02x}", s.op),
                format!("opcode 0x{:02x} at pc {} of {} executed in static mode with result {:?}", s.op, s.pc, s.address, s.result),
            ));
        }
    }
    for (k, msg) in &mon.static_violations {
        v.push((k.clone(), msg.clone()));
    }
    // ground truth that does not rely on revm's own static flag: a frame opened by STATICCALL /
    // EXTSTATICCALL must be static, and since the code under test only ever runs below such a frame,
    // nothing but the driver's own slot, the sender and the coinbase may differ at the end
    for a in mon.attempts.iter().filter(|a| (a.scheme == "StaticCall" || a.scheme == "ExtStaticCall") && !a.is_static) {
        v.push(("static-call-frame-not-static".into(), format!("{} to {} opened a frame that is not static", a.scheme, a.target)));
    }
    if o.class == Class::Success {
        if !o.logs.is_empty() {
            v.push(("static-region-logged".into(), format!("{} logs were emitted although all code ran under a static call", o.logs.len())));
        }
        for (addr, acc) in &o.state {
            if *addr == A || *addr == case.tx.caller || *addr == case.block.coinbase {
                continue;
            }
            let pre = case.world.get(addr).cloned().unwrap_or_default();
            let changed_slot = acc.storage.iter().find(|(_, s)| s.present_value != s.original_value);
            if acc.info.balance != pre.balance || acc.info.nonce != pre.nonce || acc.info.code_hash != pre.code_hash() || acc.is_selfdestructed() || acc.is_created() || changed_slot.is_some() {
                v.push(("static-region-changed-world".into(), format!("account {addr} differs after the transaction although all code ran under a static call: balance {} -> {}, nonce {} -> {}, changed slot {:?}, destroyed {}, created {}", pre.balance, acc.info.balance, pre.nonce, acc.info.nonce, changed_slot.map(|(k, s)| (*k, s.original_value, s.present_value)), acc.is_selfdestructed(), acc.is_created())));
                break;
            }
        }
    }
    // the driver's own write after the static call must still work (static mode does not leak upwards)
    if o.class == Class::Success {
        let ok = o.state.get(&A).and_then(|a| a.storage.get(&U256::from(7))).map(|s| s.present_value == U256::from(7)).unwrap_or(false);
        if !ok {
            v.push(("static-leaks-to-caller".into(), "the caller could not write storage after the static call returned".into()));
        }
    }
    let sig = format!("{:?}/{}w/{}", mon.attempts.iter().skip(1).take(4).map(|a| format!("{:?}", a.result.unwrap_or(InstructionResult::Continue))).collect::<Vec<_>>(), write_attempts, mon.static_regions);
    (v, write_attempts, mon.static_regions, sig)
}

pub fn replay(case: &Value) -> Vec<Violation> {
    let c: TxCase = serde_json::from_value(case["case"].clone()).unwrap();
    check_case(&c).0.into_iter().map(|(k, m)| Violation { key: k, msg: m, case: case.clone() }).collect()
}

pub fn run(ctx: &Ctx) -> i32 {
    let depth = ctx.tier.pick(3, 4);
    let specs = [SpecId::BYZANTIUM, SpecId::PETERSBURG, SpecId::ISTANBUL, SpecId::BERLIN, SpecId::LONDON, SpecId::SHANGHAI, SpecId::CANCUN, SpecId::PRAGUE];
    let mut jobs = vec![];
    for s in specs {
        let a = alphabet_for(s, &alphabet());
        for seq in sequences(&a, depth) {
            for r in routes() {
                jobs.push((s, r, seq.clone()));
            }
        }
    }
    // OSAKA: EOF drivers issuing EXTSTATICCALL (one level shallower)
    {
        let a = alphabet_for(SpecId::OSAKA, &alphabet());
        for seq in sequences(&a, depth - 1) {
            for r in [Route::ExtStatic, Route::ExtStaticViaCall, Route::Direct] {
                jobs.push((SpecId::OSAKA, r, seq.clone()));
            }
        }
    }
    let rot = (ctx.seed as usize) % jobs.len().max(1);
    jobs.rotate_left(rot);
    let accs: Vec<Acc> = jobs
        .par_chunks(64)
        .map(|ch| {
            let mut a = Acc::new();
            for (s, r, seq) in ch {
                if ctx.over_budget() {
                    a.capped = true;
                    break;
                }
                let code = assemble(seq);
                let case = build_case(*s, *r, &code);
                let (v, w, regions, sig) = check_case(&case);
                a.evaluations += 1;
                a.states += 1;
                a.transitions += 1 + seq.len() as u64;
                a.bump("static_write_attempts", w);
                a.bump("static_regions", regions);
                a.distinct(&(s, r, &sig));
                a.outcome(&format!("writes={}", w.min(3)));
                if a.samples.is_empty() && w > 0 {
                    a.sample(|| json!({"spec": spec_name(*s), "route": format!("{r:?}"), "program": format!("{seq:?}"), "static_write_attempts": w}));
                }
                for (k, m) in v {
                    a.violation(Violation { key: k, msg: format!("{s:?} {r:?} {seq:?}: {m}"), case: json!({"program": format!("{seq:?}"), "case": case}) });
                }
            }
            a
        })
        .collect();
    let mut acc = merge_all(accs);
    // OSAKA: EOF code under static mode
    {
        let n = eof_alphabet().len();
        let d = depth - 1;
        let mut seqs: Vec<Vec<usize>> = vec![vec![]];
        let mut last: Vec<Vec<usize>> = vec![vec![]];
        for _ in 0..d {
            let mut next = vec![];
            for s in &last {
                for i in 0..n {
                    let mut x = s.clone();
                    x.push(i);
                    next.push(x);
                }
            }
            seqs.extend(next.iter().cloned());
            last = next;
        }
        let mut ejobs = vec![];
        for s in &seqs {
            ejobs.push((s.clone(), None));
            for g in STATIC_GAS {
                ejobs.push((s.clone(), Some(g)));
            }
        }
        let eaccs: Vec<Acc> = ejobs
            .par_chunks(32)
            .map(|ch| {
                let mut a = Acc::new();
                for (seq, g) in ch {
                    let case = eof_case(seq, *g);
                    let (v, w, regions, sig) = check_case(&case);
                    a.evaluations += 1;
                    a.states += 1;
                    a.transitions += 1 + seq.len() as u64;
                    a.bump("static_write_attempts", w);
                    a.bump("static_regions", regions);
                    a.bump("eof_code_under_static_cases", 1);
                    a.distinct(&("eof", seq, g, &sig));
                    a.outcome(&format!("eof-writes={}", w.min(3)));
                    let names: Vec<&str> = seq.iter().map(|i| eof_alphabet()[*i].0).collect();
                    for (k, m) in v {
                        a.violation(Violation { key: k, msg: format!("OSAKA EOF code {names:?} under a static call with gas {g:?}: {m}"), case: json!({"program": format!("{names:?}"), "case": case}) });
                    }
                }
                a
            })
            .collect();
        acc.merge(merge_all(eaccs));
    }
    let meta = Meta {
        rule: format!("every macro program of depth <= {depth} over a 29-macro alphabet (SSTORE incl. no-change writes, TSTORE, LOG, CREATE/CREATE2, SELFDESTRUCT, CALL with value, nested calls to writers) as the code under static mode, reached directly by STATICCALL and through STATICCALL -> CALL/CALLCODE/DELEGATECALL/STATICCALL, on 8 specs Byzantium..Prague, and (one level shallower, OSAKA) from an EOF driver through EXTSTATICCALL and EXTSTATICCALL -> CALL; plus EOF code as the code under static mode: every sequence of depth <= depth-1 over 13 EOF instruction groups (SSTORE, TSTORE, LOG, EXTCALL with and without value to an existing / absent account, EXTCALL / EXTDELEGATECALL to an EOF writer, EXTSTATICCALL, EOFCREATE, SLOAD) reached by EXTSTATICCALL and by STATICCALL with 8 gas amounts around the EXTCALL minimum-gas thresholds; distinct = distinct (spec, route, nested results, write attempts)"),
        assumptions: vec!["'world state' excludes access status: warm/cold and the touched mark (a zero-value call touches its target in any mode)".into(), "end-to-end ground truth independent of the static flag: frames opened by STATICCALL / EXTSTATICCALL must be static, no logs and no account other than the driver, sender and coinbase may differ after the transaction".into()],
        bounds: json!({"depth": depth, "routes": 5, "specs": 8}),
        min_distinct: 100,
        exhaustive: true,
        explanation: "step monitor: every write-class instruction with its operands present must fail in static mode; frame monitor: state projection at the end of the static region equals the one at its start; static flag inherited".into(),
    };
    finish(ctx, acc, meta, &replay)
}
