//! C05: each opcode and precompile exists exactly from its activating hardfork — E2, complete.
use crate::asm::{op, Asm};
use crate::exec::*;
use crate::fw::*;
use crate::world::*;
use rayon::prelude::*;
use revm::primitives::{address, Address, Bytes, SpecId, U256};
use serde_json::{json, Value};

/// Activation table transcribed from the EIPs (independent of revm's opcode tables).
/// Returns the first spec in which `opc` is a defined legacy instruction, or None if it never is.
pub fn activation(opc: u8) -> Option<SpecId> {
    use SpecId::*;
    Some(match opc {
        0x00..=0x0b => FRONTIER,
        0x10..=0x1a => FRONTIER,
        0x1b..=0x1d => CONSTANTINOPLE, // EIP-145
        0x20 => FRONTIER,
        0x30..=0x3c => FRONTIER,
        0x3d | 0x3e => BYZANTIUM, // EIP-211
        0x3f => CONSTANTINOPLE,   // EIP-1052
        0x40..=0x45 => FRONTIER,
        0x46 | 0x47 => ISTANBUL, // EIP-1344, EIP-1884
        0x48 => LONDON,          // EIP-3198
        0x49 | 0x4a => CANCUN,   // EIP-4844, EIP-7516
        0x50..=0x5b => FRONTIER,
        0x5c | 0x5d => CANCUN, // EIP-1153
        0x5e => CANCUN,        // EIP-5656
        0x5f => SHANGHAI,      // EIP-3855
        0x60..=0x9f => FRONTIER,
        0xa0..=0xa4 => FRONTIER,
        0xf0..=0xf3 => FRONTIER,
        0xf4 => HOMESTEAD,      // EIP-7
        0xf5 => CONSTANTINOPLE, // EIP-1014
        0xfa => BYZANTIUM,      // EIP-214
        0xfd => BYZANTIUM,      // EIP-140
        0xfe => FRONTIER,       // designated invalid instruction (EIP-141): always halts
        0xff => FRONTIER,
        _ => return None, // never defined in legacy code (includes every EOF-only opcode)
    })
}
pub fn defined(opc: u8, spec: SpecId) -> bool {
    match activation(opc) {
        Some(s) => spec.is_enabled_in(s),
        None => false,
    }
}

const T: u8 = 36; // operand value: offset of a JUMPDEST in the prefixed layout
fn program(opc: u8, prefix: bool) -> Vec<u8> {
    let mut a = Asm::new();
    if prefix {
        for _ in 0..17 {
            a = a.push_u(T as u64);
        }
    }
    // opcode, then JUMPDESTs at 35 and 36 (for the prefixed layout), then STOP
    a.op(opc).op(op::JUMPDEST).op(op::JUMPDEST).op(op::STOP).build()
}

pub fn opcode_case(spec: SpecId, opc: u8, prefix: bool) -> TxCase {
    let mut w = base_world();
    w.insert(A, PlainAcc::contract(&program(opc, prefix)).with_balance(U256::from(1000)));
    let mut c = TxCase::new(spec, w);
    c.tx.gas_limit = 1_000_000;
    c
}

/// (previous spec, route): when set, the probe runs on an Evm that first executed the same probe under the
/// previous spec and was then switched (route 0: Evm::modify_spec_id, route 1: modify().with_spec_id().build())
#[derive(Clone, Copy)]
pub struct Switch(pub SpecId, pub u8);
fn exec_sw(case: &TxCase, sw: Option<Switch>) -> Outcome {
    let Some(Switch(prev, route)) = sw else { return exec(case) };
    let mut c0 = case.clone();
    c0.spec = spec_name(prev);
    let r = crate::fw::catch(|| {
        let mut evm = build_evm(&c0, to_cachedb(&case.world), ());
        let _ = evm.transact();
        let mut evm = if route == 0 {
            evm.modify_spec_id(case.spec());
            evm
        } else {
            evm.modify().with_spec_id(case.spec()).build()
        };
        evm.context.evm.inner.env = case.env();
        evm.transact()
    });
    match r {
        Ok(r) => Outcome::from_result(r),
        Err(p) => Outcome { class: Class::Fatal, reason: format!("panic: {p}"), gas_used: 0, gas_refunded: 0, output: Bytes::new(), logs: vec![], created: None, state: Default::default() },
    }
}
fn sw_json(sw: Option<Switch>) -> Value {
    match sw {
        Some(Switch(p, r)) => json!({"prev": spec_name(p), "route": r}),
        None => Value::Null,
    }
}
fn sw_from(v: &Value) -> Option<Switch> {
    Some(Switch(spec_from_name(v.get("prev")?.as_str()?), v.get("route")?.as_u64()? as u8))
}
fn check_opcode(case: &TxCase, opc: u8, prefix: bool) -> (Outcome, Vec<Violation>) {
    check_opcode_sw(case, opc, prefix, None)
}
fn check_opcode_sw(case: &TxCase, opc: u8, prefix: bool, sw: Option<Switch>) -> (Outcome, Vec<Violation>) {
    let o = exec_sw(case, sw);
    let spec = case.spec();
    let def = defined(opc, spec);
    let undefined_class = o.class == Class::Halt && (o.reason == "OpcodeNotFound" || o.reason == "NotActivated");
    let all_gas = o.gas_used == case.tx.gas_limit;
    let mut v = vec![];
    let cj = json!({"kind":"opcode","opcode":opc,"prefix":prefix,"case":case,"switch":sw_json(sw)});
    let name = format!("0x{opc:02x}");
    if o.class == Class::Invalid || o.class == Class::Fatal {
        v.push(Violation { key: "machinery".into(), msg: format!("probe transaction not executed: {}", o.reason), case: cj });
        return (o, v);
    }
    if !def {
        if !(undefined_class && all_gas) {
            v.push(Violation {
                key: format!("opcode-active-before-fork:{name}:{}", case.spec),
                msg: format!("opcode {name} is not introduced in {} but did not behave as undefined: {:?}/{} gas_used={}", case.spec, o.class, o.reason, o.gas_used),
                case: cj,
            });
        }
    } else if opc == 0xfe {
        if !(o.class == Class::Halt && all_gas) {
            v.push(Violation { key: format!("invalid-opcode:{}", case.spec), msg: format!("INVALID did not halt with all gas: {:?}", o.class), case: cj });
        }
    } else {
        if undefined_class {
            v.push(Violation {
                key: format!("opcode-undefined-after-fork:{name}:{}", case.spec),
                msg: format!("opcode {name} exists from {:?} but behaves as undefined ({}) in {}", activation(opc).unwrap(), o.reason, case.spec),
                case: cj,
            });
        } else if prefix && opc != 0x3e && o.class == Class::Halt {
            // with 17 benign operands every defined opcode except RETURNDATACOPY (out of bounds by design) completes
            v.push(Violation {
                key: format!("opcode-halts-with-operands:{name}:{}", case.spec),
                msg: format!("opcode {name} with benign operands halted: {}", o.reason),
                case: cj,
            });
        }
    }
    (o, v)
}

// ---------------- precompiles ----------------

pub const NEVER: Address = address!("0000000000000000000000000000000000001234");
const G: u64 = 300_000;

fn probe_program(target: Address) -> Vec<u8> {
    Asm::new()
        .op(op::CALLDATASIZE)
        .push_u(0)
        .push_u(0)
        .op(op::CALLDATACOPY)
        .op(op::GAS)
        .push_u(64)
        .push_u(0x200)
        .op(op::CALLDATASIZE)
        .push_u(0)
        .push_u(0)
        .push_addr(target)
        .push_u(G)
        .op(op::CALL)
        .push_u(0x240)
        .op(op::MSTORE)
        .op(op::GAS)
        .op(op::SWAP1)
        .op(op::SUB)
        .push_u(0x260)
        .op(op::MSTORE)
        .push_u(0x80)
        .push_u(0x200)
        .op(op::RETURN)
        .build()
}

/// (first spec, probe input, expected (success flag, first 64 output bytes (zero padded), gas) per spec)
struct Pc {
    addr: u64,
    from: SpecId,
    input: Vec<u8>,
}
fn blake_input() -> Vec<u8> {
    let mut v = vec![0u8; 213];
    v[3] = 0; // rounds = 0
    v[212] = 1;
    v
}
fn modexp_input() -> Vec<u8> {
    let mut v = vec![0u8; 96];
    v[31] = 1;
    v[63] = 1;
    v[95] = 1;
    v.extend_from_slice(&[2, 3, 5]);
    v
}
fn pcs() -> Vec<Pc> {
    use SpecId::*;
    let mut v = vec![
        Pc { addr: 1, from: FRONTIER, input: vec![0; 128] },
        Pc { addr: 2, from: FRONTIER, input: vec![] },
        Pc { addr: 3, from: FRONTIER, input: vec![] },
        Pc { addr: 4, from: FRONTIER, input: vec![0xab; 32] },
        Pc { addr: 5, from: BYZANTIUM, input: modexp_input() },
        Pc { addr: 6, from: BYZANTIUM, input: vec![] },
        Pc { addr: 7, from: BYZANTIUM, input: vec![] },
        Pc { addr: 8, from: BYZANTIUM, input: vec![] },
        Pc { addr: 9, from: ISTANBUL, input: blake_input() },
        Pc { addr: 0x0a, from: CANCUN, input: vec![] },
    ];
    for a in 0x0b..=0x11u64 {
        v.push(Pc { addr: a, from: PRAGUE, input: vec![] });
    }
    // addresses that are never precompiles on mainnet specs
    for a in [0x12u64, 0x13, 0x100] {
        v.push(Pc { addr: a, from: LATEST, input: vec![] });
    }
    v
}
/// expected precompile gas for the probe input (EIP tables), None = the precompile fails on this probe
fn pc_gas(addr: u64, spec: SpecId) -> Option<u64> {
    use SpecId::*;
    Some(match addr {
        1 => 3000,
        2 => 60,
        3 => 600,
        4 => 18,
        5 => {
            if spec.is_enabled_in(BERLIN) {
                200
            } else {
                0
            }
        }
        6 => {
            if spec.is_enabled_in(ISTANBUL) {
                150
            } else {
                500
            }
        }
        7 => {
            if spec.is_enabled_in(ISTANBUL) {
                6000
            } else {
                40000
            }
        }
        8 => {
            if spec.is_enabled_in(ISTANBUL) {
                45000
            } else {
                100000
            }
        }
        9 => 0,
        _ => return None,
    })
}
fn pc_out_len(addr: u64) -> usize {
    match addr {
        1 => 0,
        2 | 3 | 4 => 32,
        5 => 1,
        6 | 7 => 64,
        8 => 32,
        9 => 64,
        _ => 0,
    }
}

pub fn precompile_case(spec: SpecId, target: Address, input: &[u8]) -> TxCase {
    let mut w = base_world();
    w.insert(A, PlainAcc::contract(&probe_program(target)));
    let mut c = TxCase::new(spec, w);
    c.tx.gas_limit = 2_000_000;
    c.tx.data = Bytes::copy_from_slice(input);
    c
}

fn check_precompile(spec: SpecId, pc_addr: u64, from: SpecId, input: &[u8]) -> (String, Vec<Violation>) {
    check_precompile_sw(spec, pc_addr, from, input, None)
}
fn check_precompile_sw(spec: SpecId, pc_addr: u64, from: SpecId, input: &[u8], sw: Option<Switch>) -> (String, Vec<Violation>) {
    let target = revm::precompile::u64_to_address(pc_addr);
    let case = precompile_case(spec, target, input);
    let base = precompile_case(spec, NEVER, input);
    let o = exec_sw(&case, sw);
    let b = exec_sw(&base, sw);
    let cj = json!({"kind":"precompile","address":pc_addr,"from":spec_name(from),"case":case,"switch":sw_json(sw)});
    let mut v = vec![];
    if o.class != Class::Success || b.class != Class::Success {
        v.push(Violation { key: "machinery".into(), msg: format!("probe did not complete: {:?} {} / {:?} {}", o.class, o.reason, b.class, b.reason), case: cj });
        return ("machinery".into(), v);
    }
    let active = from != SpecId::LATEST && spec.is_enabled_in(from);
    let name = format!("0x{pc_addr:02x}");
    let flag = |o: &Outcome| o.output[0x40 + 31];
    let warm_discount: i128 = if spec.is_enabled_in(SpecId::BERLIN) { 2500 } else { 0 };
    // gas consumed around the CALL, measured inside the EVM (independent of intrinsic / floor gas)
    let inner = |o: &Outcome| U256::from_be_slice(&o.output[0x60..0x80]).to::<u64>() as i128;
    let delta = inner(&o) - inner(&b);
    if !active {
        if o.output != b.output {
            v.push(Violation {
                key: format!("precompile-active-before-fork:{name}:{}", spec_name(spec)),
                msg: format!("address {name} is not a precompile in {spec:?} but differs from an empty account: gas {} vs {}, output {} vs {}", o.gas_used, b.gas_used, o.output, b.output),
                case: cj,
            });
        }
        return ("inactive".into(), v);
    }
    match pc_gas(pc_addr, spec) {
        Some(g) => {
            let exp = g as i128 - warm_discount;
            let outlen = pc_out_len(pc_addr);
            let nonzero_out = o.output[..64].iter().any(|x| *x != 0);
            let ok_out = match pc_addr {
                1 => !nonzero_out,
                6 | 7 | 9 if pc_addr != 9 => !nonzero_out, // (0,0) point
                _ => outlen == 0 || nonzero_out,
            };
            if flag(&o) != 1 || delta != exp || !ok_out {
                v.push(Violation {
                    key: format!("precompile-missing-after-fork:{name}:{}", spec_name(spec)),
                    msg: format!("address {name} must be a precompile from {from:?}; in {spec:?} flag={} gas delta={} (expected {}), output={}", flag(&o), delta, exp, o.output),
                    case: cj,
                });
            }
        }
        None => {
            // probe input is invalid for this precompile: it must fail and burn the forwarded gas
            let exp = G as i128 - warm_discount;
            if flag(&o) != 0 || delta != exp {
                v.push(Violation {
                    key: format!("precompile-missing-after-fork:{name}:{}", spec_name(spec)),
                    msg: format!("address {name} must be a precompile from {from:?} and reject the empty probe; in {spec:?} flag={} gas delta={} (expected {})", flag(&o), delta, exp),
                    case: cj,
                });
            }
        }
    }
    ("active".into(), v)
}

pub fn replay(case: &Value) -> Vec<Violation> {
    if case["kind"] == "opcode" {
        let c: TxCase = serde_json::from_value(case["case"].clone()).unwrap();
        let opc = case["opcode"].as_u64().unwrap() as u8;
        let prefix = case["prefix"].as_bool().unwrap();
        check_opcode_sw(&c, opc, prefix, sw_from(&case["switch"])).1
    } else {
        let c: TxCase = serde_json::from_value(case["case"].clone()).unwrap();
        let addr = case["address"].as_u64().unwrap();
        let from = spec_from_name(case["from"].as_str().unwrap());
        check_precompile_sw(c.spec(), addr, from, &c.tx.data, sw_from(&case["switch"])).1
    }
}

pub fn run_prop(ctx: &Ctx) -> i32 {
    let specs = all_specs();
    let mut jobs = vec![];
    for s in &specs {
        for opc in 0..=255u8 {
            for prefix in [false, true] {
                jobs.push((*s, opc, prefix));
            }
        }
    }
    let accs: Vec<Acc> = jobs
        .par_chunks(64)
        .map(|ch| {
            let mut a = Acc::new();
            for (s, opc, prefix) in ch {
                let case = opcode_case(*s, *opc, *prefix);
                let (o, v) = check_opcode(&case, *opc, *prefix);
                a.evaluations += 1;
                a.states += 1;
                a.transitions += 1;
                a.distinct(&(s, opc, prefix, &o.class, &o.reason, o.gas_used));
                a.outcome(&format!("{:?}/{}", o.class, if o.class == Class::Halt { o.reason.clone() } else { String::new() }));
                if *opc == 0x5f && *prefix {
                    a.sample(|| json!({"spec": spec_name(*s), "opcode": "0x5f", "prefix": true, "class": format!("{:?}", o.class), "reason": o.reason, "gas_used": o.gas_used}));
                }
                for x in v {
                    a.violation(x);
                }
            }
            a
        })
        .collect();
    let mut acc = merge_all(accs);
    let mut pj = vec![];
    for s in &specs {
        for p in pcs() {
            pj.push((*s, p.addr, p.from, p.input));
        }
    }
    let accs: Vec<Acc> = pj
        .par_iter()
        .map(|(s, addr, from, input)| {
            let mut a = Acc::new();
            let (k, v) = check_precompile(*s, *addr, *from, input);
            a.evaluations += 1;
            a.states += 1;
            a.transitions += 2;
            a.distinct(&(s, addr, &k));
            a.outcome(&format!("precompile-{k}"));
            for x in v {
                a.violation(x);
            }
            a
        })
        .collect();
    acc.merge(merge_all(accs));
    // the same questions on an Evm that ran under another fork first and was then switched
    {
        let prevs = [SpecId::FRONTIER, SpecId::BYZANTIUM, SpecId::ISTANBUL, SpecId::BERLIN, SpecId::SHANGHAI, SpecId::CANCUN, SpecId::PRAGUE];
        let mut sj = vec![];
        for s in &specs {
            for prev in prevs {
                if prev == *s {
                    continue;
                }
                for route in [0u8, 1] {
                    for p in pcs() {
                        sj.push((*s, Switch(prev, route), Some((p.addr, p.from, p.input)), 0u8));
                    }
                    if route == 0 {
                        for opc in 0..=255u8 {
                            sj.push((*s, Switch(prev, route), None, opc));
                        }
                    }
                }
            }
        }
        let accs: Vec<Acc> = sj
            .par_chunks(64)
            .map(|ch| {
                let mut a = Acc::new();
                for (s, sw, pc, opc) in ch {
                    a.evaluations += 1;
                    a.states += 1;
                    a.transitions += 2;
                    a.bump("after_spec_switch_cases", 1);
                    let v = match pc {
                        Some((addr, from, input)) => {
                            let (k, v) = check_precompile_sw(*s, *addr, *from, input, Some(*sw));
                            a.distinct(&("switch", s, sw.0, sw.1, addr, &k));
                            v
                        }
                        None => {
                            let case = opcode_case(*s, *opc, false);
                            let (o, v) = check_opcode_sw(&case, *opc, false, Some(*sw));
                            a.distinct(&("switch", s, sw.0, opc, &o.class, &o.reason));
                            v
                        }
                    };
                    for mut x in v {
                        x.msg = format!("on an Evm that ran under {:?} first and was switched by {}: {}", sw.0, if sw.1 == 0 { "modify_spec_id" } else { "the builder" }, x.msg);
                        a.violation(x);
                    }
                }
                a
            })
            .collect();
        acc.merge(merge_all(accs));
    }
    let _ = ctx;
    let meta = Meta {
        rule: "all 256 opcode bytes x all 21 SpecIds x {bare, 17 benign operands} and 20 precompile/non-precompile addresses x all SpecIds; the same on an Evm that first ran under one of 7 other forks and was then switched (opcodes: Evm::modify_spec_id; precompile addresses: modify_spec_id and the builder); distinct = distinct (spec, opcode, variant, class, reason, gas)".into(),
        assumptions: vec![
            "activation table transcribed from the EIPs; 'undefined' is observed as Halt with the whole gas limit used and HaltReason OpcodeNotFound/NotActivated".into(),
            "CONSTANTINOPLE carries EIP-145/1014/1052 (as the EIPs state); OSAKA/LATEST keep every EOF-only opcode undefined in legacy code".into(),
            "precompile probe: observable difference from a never-used address (gas, success flag, output window)".into(),
        ],
        bounds: json!({"opcodes": 256, "specs": specs.len(), "variants": 2, "precompile_addresses": pcs().len()}),
        min_distinct: 2000,
        exhaustive: true,
        explanation: "complete enumeration of the (opcode, spec) and (precompile address, spec) spaces in both tiers".into(),
    };
    finish(ctx, acc, meta, &replay)
}
pub use run_prop as run;
