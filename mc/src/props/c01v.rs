//! Binding of the reference EVM R (and of revm) to the execution-spec state tests shipped in
//! /repo/tests/pectra_devnet5/state_tests: each vector gives a post-state root and a logs hash produced
//! by the reference Python implementation. This part is a fixed sample, not an enumeration; it is what
//! keeps R demonstrably tied to the specification.
use crate::fw::*;
use serde_json::Value;

#[cfg(not(feature = "main"))]
pub fn run_vectors(_ctx: &Ctx) -> Acc {
    Acc::new()
}
#[cfg(not(feature = "main"))]
pub fn replay(_case: &Value) -> Vec<Violation> {
    vec![]
}

#[cfg(feature = "main")]
pub use imp::{replay, run_vectors};

#[cfg(feature = "main")]
mod imp {
    use super::*;
    use crate::props::c32::ref_fake_exp;
    use crate::refevm::*;
    use crate::world::{commit_plain, Plain, PlainAcc};
    use num_traits::ToPrimitive;
    use rayon::prelude::*;
    use revm::db::{CacheDB, EmptyDB, PlainAccount};
    use revm::primitives::{calc_excess_blob_gas, keccak256, AccountInfo, Address, Bytecode, Bytes, Log, LogData, SpecId, TxKind, B256, KECCAK_EMPTY, U256};
    use revm::Evm;
    use revme::cmd::statetest::merkle_trie::{log_rlp_hash, state_merkle_trie_root};
    use revme::cmd::statetest::models::{SpecName, TestSuite, TestUnit};
    use revme::cmd::statetest::utils::recover_address;
    use serde_json::json;
    use std::path::PathBuf;
    use std::str::FromStr;

    fn vector_files() -> Vec<PathBuf> {
        let root = PathBuf::from("/repo/tests/pectra_devnet5/state_tests");
        let mut out = vec![];
        let mut stack = vec![root];
        while let Some(d) = stack.pop() {
            let Ok(rd) = std::fs::read_dir(&d) else { continue };
            for e in rd.flatten() {
                let p = e.path();
                if p.is_dir() {
                    stack.push(p);
                } else if p.extension().map(|x| x == "json").unwrap_or(false) {
                    out.push(p);
                }
            }
        }
        out.sort();
        out
    }
    fn root_of(w: &RWorld) -> B256 {
        let accs: Vec<(Address, PlainAccount)> = w
            .iter()
            .map(|(a, x)| {
                let code_hash = if x.code.is_empty() { KECCAK_EMPTY } else { keccak256(&x.code) };
                (*a, PlainAccount { info: AccountInfo { balance: x.balance, nonce: x.nonce, code_hash, code: None }, storage: x.storage.iter().map(|(k, v)| (*k, *v)).collect() })
            })
            .collect();
        state_merkle_trie_root(accs.iter().map(|(a, p)| (*a, p)))
    }
    fn logs_hash(logs: &[RLog]) -> B256 {
        let l: Vec<Log> = logs.iter().map(|x| Log { address: x.address, data: LogData::new_unchecked(x.topics.clone(), x.data.clone()) }).collect();
        log_rlp_hash(&l)
    }
    fn plain_to_rworld(p: &Plain) -> RWorld {
        crate::props::c01::to_rworld(p)
    }

    struct VCase {
        name: String,
        spec: SpecId,
        env: REnv,
        tx: RTx,
        pre: RWorld,
        hash: B256,
        logs: B256,
        expect_exception: bool,
    }
    fn cases_of(name: &str, unit: &TestUnit) -> (Vec<VCase>, u64) {
        let mut out = vec![];
        let mut skipped = 0u64;
        let pre: RWorld = unit.pre.iter().map(|(a, i)| (*a, RAcc { balance: i.balance, nonce: i.nonce, code: i.code.clone(), storage: i.storage.iter().filter(|(_, v)| !v.is_zero()).map(|(k, v)| (*k, *v)).collect() })).collect();
        let caller = unit.transaction.sender.or_else(|| recover_address(unit.transaction.secret_key.as_slice()));
        let Some(caller) = caller else { return (out, 1) };
        for (spec_name, tests) in &unit.post {
            if matches!(spec_name, SpecName::Constantinople | SpecName::ByzantiumToConstantinopleAt5 | SpecName::Osaka | SpecName::Unknown) {
                skipped += tests.len() as u64;
                continue;
            }
            let spec = spec_name.to_spec_id();
            if !SpecId::PRAGUE.is_enabled_in(spec) {
                skipped += tests.len() as u64;
                continue;
            }
            let is_prague = spec.is_enabled_in(SpecId::PRAGUE);
            let excess: Option<u64> = if let Some(e) = unit.env.current_excess_blob_gas {
                Some(e.to())
            } else if let (Some(u), Some(e)) = (unit.env.parent_blob_gas_used, unit.env.parent_excess_blob_gas) {
                Some(calc_excess_blob_gas(u.to(), e.to(), unit.env.parent_target_blobs_per_block.map(|x| x.to()).unwrap_or(3)))
            } else {
                None
            };
            let frac = if is_prague { 5007716u64 } else { 3338477 };
            let blob_gasprice = excess.and_then(|e| ref_fake_exp(1, e, frac)).and_then(|p| p.to_u128()).unwrap_or(1);
            let env = REnv {
                number: unit.env.current_number,
                timestamp: unit.env.current_timestamp,
                coinbase: unit.env.current_coinbase,
                difficulty: unit.env.current_difficulty,
                prevrandao: unit.env.current_random.unwrap_or_default(),
                gas_limit: unit.env.current_gas_limit,
                basefee: unit.env.current_base_fee.unwrap_or_default(),
                blob_gasprice: U256::from(blob_gasprice),
                chain_id: 1,
            };
            for (ti, t) in tests.iter().enumerate() {
                let Ok(auth) = t.eip7702_authorization_list() else {
                    skipped += 1;
                    continue;
                };
                let auth_list = auth.map(|l| match l {
                    revm::primitives::AuthorizationList::Recovered(v) => v.iter().map(|a| RAuth { chain_id: a.chain_id, address: a.address, nonce: a.nonce, authority: a.authority() }).collect::<Vec<_>>(),
                    revm::primitives::AuthorizationList::Signed(_) => vec![],
                });
                let tx = RTx {
                    caller,
                    to: unit.transaction.to,
                    value: U256::from_str(&unit.transaction.value[t.indexes.value]).unwrap_or_default(),
                    data: unit.transaction.data[t.indexes.data].clone(),
                    gas_limit: unit.transaction.gas_limit[t.indexes.gas].saturating_to(),
                    gas_price: unit.transaction.gas_price.or(unit.transaction.max_fee_per_gas).unwrap_or_default(),
                    priority_fee: unit.transaction.max_priority_fee_per_gas,
                    nonce: Some(u64::try_from(unit.transaction.nonce).unwrap_or(u64::MAX)),
                    chain_id: None,
                    access_list: unit.transaction.access_lists.get(t.indexes.data).and_then(|x| x.as_ref()).map(|l| l.0.iter().map(|i| (i.address, i.storage_keys.iter().map(|k| U256::from_be_bytes(k.0)).collect())).collect()).unwrap_or_default(),
                    blob_hashes: unit.transaction.blob_versioned_hashes.clone(),
                    max_fee_per_blob_gas: unit.transaction.max_fee_per_blob_gas,
                    auth_list,
                };
                out.push(VCase { name: format!("{name}/{spec_name:?}/{ti}"), spec, env: env.clone(), tx, pre: pre.clone(), hash: t.hash, logs: t.logs, expect_exception: t.expect_exception.is_some() });
            }
        }
        (out, skipped)
    }

    /// R on one vector: Ok(()) or a description of the mismatch
    fn run_r(c: &VCase) -> Result<(), String> {
        let mut w = c.pre.clone();
        let r = catch(|| transact(c.spec, &c.env, &c.tx, &mut w, false)).map_err(|p| format!("reference EVM panicked: {p}"))?;
        let logs = match &r {
            ROutcome::Invalid(_) => {
                w = c.pre.clone();
                vec![]
            }
            ROutcome::Done(d) => d.logs.clone(),
        };
        let (root, lh) = (root_of(&w), logs_hash(&logs));
        if root != c.hash || lh != c.logs {
            let what = match &r {
                ROutcome::Invalid(e) => format!("rejected ({e})"),
                ROutcome::Done(d) => format!("{:?} gas {}", d.class, d.gas_used),
            };
            return Err(format!("R: {what}; state root {} (expected {}), logs hash {} (expected {}), exception expected: {}", root, c.hash, lh, c.logs, c.expect_exception));
        }
        Ok(())
    }
    /// revm on one vector
    fn run_revm(c: &VCase) -> Result<(), String> {
        let mut plain: Plain = c.pre.iter().map(|(a, x)| (*a, PlainAcc { balance: x.balance, nonce: x.nonce, code: x.code.clone(), storage: x.storage.clone() })).collect();
        let mut db = CacheDB::new(EmptyDB::default());
        for (a, x) in &c.pre {
            let code_hash = if x.code.is_empty() { KECCAK_EMPTY } else { keccak256(&x.code) };
            db.insert_account_info(*a, AccountInfo { balance: x.balance, nonce: x.nonce, code_hash, code: Some(Bytecode::new_raw(x.code.clone())) });
            for (k, v) in &x.storage {
                db.insert_account_storage(*a, *k, *v).unwrap();
            }
        }
        let mut env = Box::<revm::primitives::Env>::default();
        env.cfg.chain_id = 1;
        env.block.number = c.env.number;
        env.block.coinbase = c.env.coinbase;
        env.block.timestamp = c.env.timestamp;
        env.block.gas_limit = c.env.gas_limit;
        env.block.basefee = c.env.basefee;
        env.block.difficulty = c.env.difficulty;
        env.block.prevrandao = Some(c.env.prevrandao);
        // the price is all that matters: find an excess that yields it is not needed, revm recomputes from excess
        env.block.blob_excess_gas_and_price = Some(revm::primitives::BlobExcessGasAndPrice { excess_blob_gas: 0, blob_gasprice: c.env.blob_gasprice.saturating_to() });
        env.tx.caller = c.tx.caller;
        env.tx.transact_to = match c.tx.to {
            Some(a) => TxKind::Call(a),
            None => TxKind::Create,
        };
        env.tx.value = c.tx.value;
        env.tx.data = c.tx.data.clone();
        env.tx.gas_limit = c.tx.gas_limit;
        env.tx.gas_price = c.tx.gas_price;
        env.tx.gas_priority_fee = c.tx.priority_fee;
        env.tx.nonce = c.tx.nonce;
        env.tx.access_list = c.tx.access_list.iter().map(|(a, ks)| revm::primitives::AccessListItem { address: *a, storage_keys: ks.iter().map(|k| B256::from(k.to_be_bytes::<32>())).collect() }).collect();
        env.tx.blob_hashes = c.tx.blob_hashes.clone();
        env.tx.max_fee_per_blob_gas = c.tx.max_fee_per_blob_gas;
        env.tx.authorization_list = c.tx.auth_list.as_ref().map(|l| {
            l.iter()
                .map(|a| {
                    revm::primitives::RecoveredAuthorization::new_unchecked(
                        revm::primitives::Authorization { chain_id: a.chain_id, address: a.address, nonce: a.nonce },
                        match a.authority {
                            Some(x) => revm::primitives::RecoveredAuthority::Valid(x),
                            None => revm::primitives::RecoveredAuthority::Invalid,
                        },
                    )
                })
                .collect::<Vec<_>>()
                .into()
        });
        let mut evm = Evm::builder().with_db(db).with_env(env).with_spec_id(c.spec).build();
        let r = catch(|| evm.transact()).map_err(|p| format!("revm panicked: {p}"))?;
        let logs: Vec<Log> = match r {
            Ok(rs) => {
                commit_plain(&mut plain, &rs.state, c.spec);
                rs.result.logs().to_vec()
            }
            Err(_) => vec![],
        };
        let w = plain_to_rworld(&plain);
        let (root, lh) = (root_of(&w), log_rlp_hash(&logs));
        if root != c.hash || lh != c.logs {
            return Err(format!("revm: state root {} (expected {}), logs hash {} (expected {})", root, c.hash, lh, c.logs));
        }
        Ok(())
    }

    /// re-run one shipped vector (identified by file and case name) on revm
    pub fn replay(case: &Value) -> Vec<Violation> {
        let name = case["vector"].as_str().unwrap_or("");
        let file = name.split("::").next().unwrap_or("");
        let path = format!("/repo/tests/pectra_devnet5/state_tests/{}", file.trim_start_matches('/'));
        let Ok(s) = std::fs::read_to_string(&path) else { return vec![] };
        let Ok(suite) = serde_json::from_str::<TestSuite>(&s) else { return vec![] };
        let mut out = vec![];
        for (uname, unit) in &suite.0 {
            let short = uname.rsplit("::").next().unwrap_or(uname);
            let (cases, _) = cases_of(&format!("{file}::{short}"), unit);
            for c in cases {
                if c.name == name {
                    if let (Ok(()), Err(e)) = (run_r(&c), run_revm(&c)) {
                        out.push(Violation { key: "shipped-vector".into(), msg: format!("{}: {e} (the reference EVM reproduces the vector)", c.name), case: case.clone() });
                    }
                }
            }
        }
        out
    }

    pub fn run_vectors(ctx: &Ctx) -> Acc {
        let files = vector_files();
        let only = std::env::var("VERIF_VECTOR_FILTER").ok();
        let accs: Vec<Acc> = files
            .par_iter()
            .map(|f| {
                let mut a = Acc::new();
                let name = f.strip_prefix("/repo/tests/pectra_devnet5/state_tests").unwrap_or(f).display().to_string();
                if let Some(o) = &only {
                    if !name.contains(o.as_str()) {
                        return a;
                    }
                }
                let Ok(s) = std::fs::read_to_string(f) else { return a };
                if s.trim().is_empty() {
                    a.bump("vector_files_empty", 1);
                    return a;
                }
                let suite: TestSuite = match serde_json::from_str(&s) {
                    Ok(x) => x,
                    Err(_) => {
                        a.bump("vector_files_unparsed", 1);
                        return a;
                    }
                };
                for (uname, unit) in &suite.0 {
                    // devnet-5 semantics of EXTCODESIZE / EXTCODECOPY / EXTCODEHASH on delegated accounts (the
                    // two-byte 0xef01 marker) were replaced in the final EIP-7702 by the full designator
                    if name.contains("/ext_code_on_") {
                        a.bump("vectors_skipped_superseded_eip7702_extcode", unit.post.values().map(|t| t.len() as u64).sum());
                        continue;
                    }
                    let short = uname.rsplit("::").next().unwrap_or(uname);
                    let (cases, skipped) = cases_of(&format!("{name}::{short}"), unit);
                    a.bump("vectors_skipped_unsupported_fork", skipped);
                    for c in cases {
                        if ctx.over_budget() {
                            a.capped = true;
                            return a;
                        }
                        a.bump("vectors_run", 1);
                        let rr = run_r(&c);
                        let rv = run_revm(&c);
                        match (&rr, &rv) {
                            (Ok(()), Ok(())) => {
                                a.traces += 1;
                                a.bump("vectors_reproduced_by_R_and_revm", 1);
                            }
                            (Ok(()), Err(e)) => {
                                a.bump("vectors_reproduced_by_R_only", 1);
                                a.violation(Violation { key: "shipped-vector".into(), msg: format!("{}: {e} (the reference EVM reproduces the vector)", c.name), case: json!({"vector": c.name}) });
                            }
                            (Err(e), Ok(())) => {
                                a.bump("vectors_R_MISMATCH", 1);
                                if std::env::var("VERIF_DEBUG").is_ok() {
                                    eprintln!("R-MISMATCH {}: {e}", c.name);
                                }
                            }
                            (Err(e), Err(e2)) => {
                                a.bump("vectors_neither_reproduces", 1);
                                if std::env::var("VERIF_DEBUG").is_ok() {
                                    eprintln!("BOTH-MISMATCH {}: {e} | {e2}", c.name);
                                }
                            }
                        }
                    }
                }
                a
            })
            .collect();
        merge_all(accs)
    }
}
