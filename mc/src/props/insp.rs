//! C29 (inspector hooks are balanced and nested) and C30 (self-destruct notification) — E2 with a
//! recording inspector next to the ground-truth monitors.
use crate::exec::*;
use crate::fw::*;
use crate::gen::*;
use crate::macros::*;
use crate::monitor::{monitor_register, HasMon, Mon};
use crate::world::*;
use rayon::prelude::*;
use revm::interpreter::{CallInputs, CallOutcome, CreateInputs, CreateOutcome, EOFCreateInputs, Gas, InstructionResult, Interpreter, InterpreterResult};
use revm::primitives::{Address, Bytes, Log, SpecId, U256};
use revm::{inspector_handle_register, Database, Evm, EvmContext, Handler, Inspector};
use serde_json::{json, Value};

#[derive(Clone, Debug, PartialEq)]
pub enum Ev {
    Init,
    Step(usize, u8),
    StepEnd(usize),
    Log(Log),
    Call(Box<CallInputs>),
    CallEnd(Box<CallInputs>, InstructionResult),
    Create(Box<CreateInputs>),
    CreateEnd(Box<CreateInputs>, InstructionResult),
    EofCreate(Box<EOFCreateInputs>),
    EofCreateEnd(Box<EOFCreateInputs>, InstructionResult),
    SelfDestruct(Address, Address, U256),
}
#[derive(Default, Debug)]
pub struct Rec {
    pub events: Vec<Ev>,
    /// short-circuit the k-th call / create with this result (1-based), if set
    pub cut_call: Option<(usize, InstructionResult)>,
    pub cut_create: Option<(usize, InstructionResult)>,
    pub calls: usize,
    pub creates: usize,
}
#[derive(Default, Debug)]
pub struct Both {
    pub mon: Mon,
    pub rec: Rec,
}
impl HasMon for Both {
    fn mon(&mut self) -> &mut Mon {
        &mut self.mon
    }
}
impl<DB: Database> Inspector<DB> for Both {
    fn initialize_interp(&mut self, _i: &mut Interpreter, _c: &mut EvmContext<DB>) {
        self.rec.events.push(Ev::Init);
    }
    fn step(&mut self, i: &mut Interpreter, _c: &mut EvmContext<DB>) {
        self.rec.events.push(Ev::Step(i.program_counter(), i.current_opcode()));
    }
    fn step_end(&mut self, i: &mut Interpreter, _c: &mut EvmContext<DB>) {
        let _ = i;
        self.rec.events.push(Ev::StepEnd(0));
    }
    fn log(&mut self, _i: &mut Interpreter, _c: &mut EvmContext<DB>, log: &Log) {
        self.rec.events.push(Ev::Log(log.clone()));
    }
    fn call(&mut self, _c: &mut EvmContext<DB>, inputs: &mut CallInputs) -> Option<CallOutcome> {
        self.rec.calls += 1;
        self.rec.events.push(Ev::Call(Box::new(inputs.clone())));
        match self.rec.cut_call {
            Some((k, r)) if k == self.rec.calls => Some(CallOutcome::new(InterpreterResult { result: r, output: Bytes::new(), gas: Gas::new(inputs.gas_limit) }, inputs.return_memory_offset.clone())),
            _ => None,
        }
    }
    fn call_end(&mut self, _c: &mut EvmContext<DB>, inputs: &CallInputs, outcome: CallOutcome) -> CallOutcome {
        self.rec.events.push(Ev::CallEnd(Box::new(inputs.clone()), outcome.result.result));
        outcome
    }
    fn create(&mut self, _c: &mut EvmContext<DB>, inputs: &mut CreateInputs) -> Option<CreateOutcome> {
        self.rec.creates += 1;
        self.rec.events.push(Ev::Create(Box::new(inputs.clone())));
        match self.rec.cut_create {
            Some((k, r)) if k == self.rec.creates => Some(CreateOutcome::new(InterpreterResult { result: r, output: Bytes::new(), gas: Gas::new(inputs.gas_limit) }, None)),
            _ => None,
        }
    }
    fn create_end(&mut self, _c: &mut EvmContext<DB>, inputs: &CreateInputs, outcome: CreateOutcome) -> CreateOutcome {
        self.rec.events.push(Ev::CreateEnd(Box::new(inputs.clone()), outcome.result.result));
        outcome
    }
    fn eofcreate(&mut self, _c: &mut EvmContext<DB>, inputs: &mut EOFCreateInputs) -> Option<CreateOutcome> {
        self.rec.creates += 1;
        self.rec.events.push(Ev::EofCreate(Box::new(inputs.clone())));
        match self.rec.cut_create {
            Some((k, r)) if k == self.rec.creates => Some(CreateOutcome::new(InterpreterResult { result: r, output: Bytes::new(), gas: Gas::new(inputs.gas_limit) }, None)),
            _ => None,
        }
    }
    fn eofcreate_end(&mut self, _c: &mut EvmContext<DB>, inputs: &EOFCreateInputs, outcome: CreateOutcome) -> CreateOutcome {
        self.rec.events.push(Ev::EofCreateEnd(Box::new(inputs.clone()), outcome.result.result));
        outcome
    }
    fn selfdestruct(&mut self, contract: Address, target: Address, value: U256) {
        self.rec.events.push(Ev::SelfDestruct(contract, target, value));
    }
}

pub fn exec_both(case: &TxCase, cut_call: Option<(usize, InstructionResult)>, cut_create: Option<(usize, InstructionResult)>) -> (Outcome, Both) {
    let spec = case.spec();
    let mut ext = Both::default();
    ext.mon = Mon::new(true);
    ext.rec.cut_call = cut_call;
    ext.rec.cut_create = cut_create;
    let b = Evm::builder().with_db(to_cachedb(&case.world)).with_external_context(ext).with_env(case.env()).with_spec_id(spec);
    let b = if case.reward { b } else { b.with_handler(Handler::mainnet_with_spec(spec, false)) };
    // monitor innermost (ground truth next to the real handlers), inspector outermost
    let mut evm = b.append_handler_register(monitor_register).append_handler_register(inspector_handle_register).build();
    let r = catch(|| evm.transact());
    let ext = std::mem::take(&mut evm.context.external);
    match r {
        Ok(r) => (Outcome::from_result(r), ext),
        Err(p) => (Outcome { class: Class::Fatal, reason: format!("panic: {p}"), gas_used: 0, gas_refunded: 0, output: Bytes::new(), logs: vec![], created: None, state: Default::default() }, ext),
    }
}

/// C29 oracle on a recorded event sequence.
pub fn check_balanced(o: &Outcome, ext: &Both) -> Vec<(String, String)> {
    let mut v = vec![];
    if o.class == Class::Invalid {
        if !ext.rec.events.is_empty() {
            v.push(("events-for-rejected-tx".into(), format!("{} inspector events for a rejected transaction", ext.rec.events.len())));
        }
        return v;
    }
    if o.class == Class::Fatal {
        v.push(("panic".into(), o.reason.clone()));
        return v;
    }
    #[derive(Debug)]
    enum Open<'a> {
        Call(&'a CallInputs),
        Create(&'a CreateInputs),
        Eof(&'a EOFCreateInputs),
    }
    let mut stack: Vec<Open> = vec![];
    let mut pending_step = false;
    let mut steps = 0u64;
    let mut logs: Vec<&Log> = vec![];
    for (i, e) in ext.rec.events.iter().enumerate() {
        match e {
            Ev::Step(..) => {
                if pending_step {
                    v.push(("step-without-step-end".into(), format!("event #{i}: a second step before step_end")));
                    return v;
                }
                pending_step = true;
                steps += 1;
            }
            Ev::StepEnd(_) => {
                if !pending_step {
                    v.push(("step-end-without-step".into(), format!("event #{i}")));
                    return v;
                }
                pending_step = false;
            }
            Ev::Log(l) => logs.push(l),
            Ev::SelfDestruct(..) | Ev::Init => {}
            Ev::Call(inp) => {
                if pending_step {
                    v.push(("frame-event-inside-step".into(), format!("event #{i}: call notification between step and step_end")));
                    return v;
                }
                stack.push(Open::Call(inp));
            }
            Ev::Create(inp) => stack.push(Open::Create(inp)),
            Ev::EofCreate(inp) => stack.push(Open::Eof(inp)),
            Ev::CallEnd(inp, _) => match stack.pop() {
                Some(Open::Call(open)) if **inp == *open => {}
                other => {
                    v.push(("call-end-mismatch".into(), format!("event #{i}: call_end does not match the innermost open notification {other:?}")));
                    return v;
                }
            },
            Ev::CreateEnd(inp, _) => match stack.pop() {
                Some(Open::Create(open)) if **inp == *open => {}
                other => {
                    v.push(("create-end-mismatch".into(), format!("event #{i}: create_end does not match the innermost open notification {other:?}")));
                    return v;
                }
            },
            Ev::EofCreateEnd(inp, _) => match stack.pop() {
                Some(Open::Eof(open)) if **inp == *open => {}
                other => {
                    v.push(("eofcreate-end-mismatch".into(), format!("event #{i}: {other:?}")));
                    return v;
                }
            },
        }
    }
    if !stack.is_empty() {
        v.push(("unclosed-notifications".into(), format!("{} call/create notifications never received their end", stack.len())));
    }
    if pending_step {
        v.push(("step-without-step-end".into(), "last step has no step_end".into()));
    }
    // ground truth from the monitor
    if steps != ext.mon.step_count {
        v.push(("step-count".into(), format!("{} step notifications for {} executed instructions", steps, ext.mon.step_count)));
    }
    if logs.len() != ext.mon.logs_seen.len() || logs.iter().zip(&ext.mon.logs_seen).any(|(a, b)| *a != b) {
        v.push(("log-notifications".into(), format!("{} log notifications, {} logs appended to the journal", logs.len(), ext.mon.logs_seen.len())));
    }
    let cut = ext.rec.cut_call.map(|(k, _)| (k <= ext.rec.calls) as usize).unwrap_or(0) + ext.rec.cut_create.map(|(k, _)| (k <= ext.rec.creates) as usize).unwrap_or(0);
    let n_open = ext.rec.events.iter().filter(|e| matches!(e, Ev::Call(_) | Ev::Create(_) | Ev::EofCreate(_))).count();
    if n_open != ext.mon.attempts.len() + cut {
        v.push(("frame-count".into(), format!("{} call/create notifications, {} attempts reached the execution handler (+{} short-circuited)", n_open, ext.mon.attempts.len(), cut)));
    }
    v
}

/// C30 oracle.
pub fn check_selfdestruct(o: &Outcome, ext: &Both) -> Vec<(String, String)> {
    let mut v = vec![];
    if o.class == Class::Fatal {
        v.push(("panic".into(), o.reason.clone()));
        return v;
    }
    let got: Vec<(Address, Address, U256)> = ext.rec.events.iter().filter_map(|e| if let Ev::SelfDestruct(a, b, c) = e { Some((*a, *b, *c)) } else { None }).collect();
    let exp: Vec<(Address, Address, U256)> = ext.mon.sd_all.iter().map(|e| (e.address, e.beneficiary, e.balance_before.saturating_sub(e.balance_after))).collect();
    if got != exp {
        let nm = |l: &Vec<(Address, Address, U256)>| l.iter().map(|(a, b, c)| format!("({}, {}, {c})", addr_name(*a), addr_name(*b))).collect::<Vec<_>>().join(" ");
        let key = if got.len() > exp.len() {
            "spurious-selfdestruct-notification"
        } else if got.len() < exp.len() {
            "missing-selfdestruct-notification"
        } else {
            "wrong-selfdestruct-notification"
        };
        v.push((key.into(), format!("notified [{}], completed SELFDESTRUCTs (contract, beneficiary, balance that left) [{}]; {} SELFDESTRUCT instructions failed", nm(&got), nm(&exp), ext.mon.sd_failed)));
    }
    v
}

pub fn insp_alphabet() -> Vec<Mac> {
    use CallKind::*;
    let c = |kind, to, value, gas| Mac::Call { kind, to, value, gas, out_len: 0 };
    let mut a: Vec<Mac> = general_alphabet().into_iter().filter(|m| !matches!(m, Mac::SelfDestruct(x) if *x == RICH) && !matches!(m, Mac::Mstore(x) if *x > 100)).collect();
    a.extend([
        c(Call, BSD, 0, 3000),       // reaches SELFDESTRUCT, runs out of gas after the host call (post-Tangerine)
        c(Call, BSD, 1, 50_000),     // entered with value
        c(StaticCall, BSD, 0, 50_000),
        c(Call, PROBE, 0, 2_000_000_000), // depth-limit failure inside
        Mac::SdBare,
        c(StaticCall, BLOG, 0, 50_000), // a LOG that is stepped but rejected (static mode)
        c(Call, BLOG, 0, 700),          // a LOG that runs out of gas
        Mac::LogBare,                   // a LOG on an empty stack
        c(Call, BLOGREV, 0, 50_000),    // a LOG whose frame reverts afterwards
    ]);
    a
}

fn run_generic(ctx: &Ctx, which: u8) -> Acc {
    let depth = 2usize;
    let specs: Vec<SpecId> = match ctx.tier {
        Tier::Quick => vec![SpecId::FRONTIER, SpecId::BYZANTIUM, SpecId::BERLIN, SpecId::LONDON, SpecId::SHANGHAI, SpecId::CANCUN, SpecId::PRAGUE],
        Tier::Thorough => MAINNET_SPECS.to_vec(),
    };
    let vars = [TxVar::Legacy, TxVar::Value1, TxVar::CreateTx, TxVar::TightGas(30_000), TxVar::SetCode];
    let cuts: Vec<(Option<(usize, InstructionResult)>, Option<(usize, InstructionResult)>)> = if which == 29 {
        vec![
            (None, None),
            (Some((1, InstructionResult::Stop)), None),
            (Some((2, InstructionResult::Stop)), None),
            (Some((2, InstructionResult::Revert)), None),
            (Some((3, InstructionResult::OutOfGas)), None),
            (None, Some((1, InstructionResult::Revert))),
            (None, Some((2, InstructionResult::Stop))),
        ]
    } else {
        vec![(None, None)]
    };
    let mut jobs = vec![];
    for s in &specs {
        let a = alphabet_for(*s, &insp_alphabet());
        let d = if ctx.tier == Tier::Thorough && matches!(*s, SpecId::CANCUN | SpecId::LONDON) && which == 30 { 3 } else { depth };
        for seq in sequences(&a, d) {
            jobs.push((*s, seq));
        }
    }
    let rot = (ctx.seed as usize) % jobs.len().max(1);
    jobs.rotate_left(rot);
    let accs: Vec<Acc> = jobs
        .par_chunks(32)
        .map(|ch| {
            let mut a = Acc::new();
            for (s, seq) in ch {
                if ctx.over_budget() {
                    a.capped = true;
                    break;
                }
                let code = assemble(seq);
                for var in &vars {
                    let Some(mut case) = make_case(*s, *var, &code) else { continue };
                    case.tx.gas_limit = case.tx.gas_limit.max(if matches!(var, TxVar::TightGas(_)) { 0 } else { 3_000_000_000 });
                    for (cc, cr) in &cuts {
                        let (o, ext) = exec_both(&case, *cc, *cr);
                        a.evaluations += 1;
                        a.states += 1;
                        a.transitions += ext.rec.events.len() as u64;
                        let v = if which == 29 { check_balanced(&o, &ext) } else { check_selfdestruct(&o, &ext) };
                        let nsd = ext.mon.sd_all.len();
                        a.distinct(&(s, &o.class, &o.reason, ext.mon.attempts.len(), nsd, ext.mon.sd_failed, ext.mon.logs_seen.len()));
                        a.bump("selfdestructs_completed", nsd as u64);
                        a.bump("selfdestructs_failed", ext.mon.sd_failed);
                        a.outcome(&format!("frames={} sd={}", ext.mon.attempts.len().min(4), nsd.min(2)));
                        if a.samples.is_empty() && ((which == 30 && nsd > 0) || (which == 29 && ext.mon.attempts.len() > 2)) {
                            a.sample(|| json!({"spec": spec_name(*s), "tx": format!("{var:?}"), "program": format!("{seq:?}"), "inspector_events": ext.rec.events.len(), "completed_selfdestructs": nsd}));
                        }
                        for (k, m) in v {
                            a.violation(Violation { key: k, msg: format!("{s:?} {var:?} {seq:?} cut={cc:?}/{cr:?}: {m}"), case: json!({"program": format!("{seq:?}"), "case": case, "cut_call": cc.map(|(k, r)| (k, format!("{r:?}"))), "cut_create": cr.map(|(k, r)| (k, format!("{r:?}")))}) });
                        }
                    }
                }
            }
            a
        })
        .collect();
    let mut acc = merge_all(accs);
    // OSAKA: EOF drivers (EOFCREATE of succeeding / reverting init containers, EXTCALL, EXTDELEGATECALL to
    // a legacy target, EXTSTATICCALL to a writer, an EOF creation transaction) x inspector behaviours
    for (name, code) in eof_drivers() {
        for var in [TxVar::Legacy, TxVar::Value1, TxVar::CreateTx] {
            let Some(mut case) = make_case(SpecId::OSAKA, var, &code) else { continue };
            case.tx.gas_limit = 3_000_000;
            for (cc, cr) in &cuts {
                let (o, ext) = exec_both(&case, *cc, *cr);
                acc.evaluations += 1;
                acc.states += 1;
                acc.transitions += ext.rec.events.len() as u64;
                acc.bump("eof_driver_cases", 1);
                let v = if which == 29 { check_balanced(&o, &ext) } else { check_selfdestruct(&o, &ext) };
                acc.distinct(&(name, &o.class, &o.reason, ext.mon.attempts.len()));
                acc.outcome(&format!("eof:{name}:{:?}", o.class));
                for (k, m) in v {
                    acc.violation(Violation { key: k, msg: format!("OSAKA {var:?} EOF driver {name} cut={cc:?}/{cr:?}: {m}"), case: json!({"program": name, "case": case, "cut_call": cc.map(|(k, r)| (k, format!("{r:?}"))), "cut_create": cr.map(|(k, r)| (k, format!("{r:?}")))}) });
                }
            }
        }
    }
    acc
}
/// EOF containers used as the executing contract (or, for the creation transaction, as init container)
fn eof_drivers() -> Vec<(&'static str, Vec<u8>)> {
    use crate::props::c26::{sub_init, sub_runtime, Cont};
    let mut v = vec![];
    let eofcreate = |sub: Vec<u8>| {
        let mut c = Cont::simple(vec![0x5f, 0x5f, 0x5f, 0x5f, 0xec, 0x00, 0x50, 0x00], 4);
        c.containers = vec![sub];
        c.raw()
    };
    v.push(("eofcreate-ok", eofcreate(sub_init())));
    // init container that reverts
    let mut rev = Cont::simple(vec![0x5f, 0x5f, 0xfd], 2);
    rev.containers = vec![];
    v.push(("eofcreate-revert", eofcreate(rev.raw())));
    let ext = |opc: u8, target: Address, with_value: bool| {
        let mut code = vec![];
        if with_value {
            code.push(0x5f);
        }
        code.extend_from_slice(&[0x5f, 0x5f, 0x73]);
        code.extend_from_slice(target.as_slice());
        code.extend_from_slice(&[opc, 0x50, 0x00]);
        Cont::simple(code, if with_value { 4 } else { 3 }).raw()
    };
    v.push(("extcall-ok", ext(0xf8, BOK, true)));
    v.push(("extcall-revert", ext(0xf8, BREV, true)));
    v.push(("extdelegatecall-legacy-target", ext(0xf9, BOK, false)));
    v.push(("extstaticcall-writer", ext(0xfb, BWRITE, false)));
    // two EOFCREATEs and a call in one frame
    {
        let mut code = vec![0x5f, 0x5f, 0x5f, 0x5f, 0xec, 0x00, 0x50, 0x5f, 0x5f, 0x5f, 0x73];
        code.extend_from_slice(BLOG.as_slice());
        code.extend_from_slice(&[0xf8, 0x50, 0x5f, 0x5f, 0x5f, 0x5f, 0xec, 0x00, 0x50, 0x00]);
        let mut c = Cont::simple(code, 4);
        c.containers = vec![sub_init()];
        v.push(("eofcreate-extcall-eofcreate", c.raw()));
    }
    // as a creation transaction: the init container itself
    v.push(("init-container", sub_init()));
    let _ = sub_runtime;
    v
}

/// Second transactions on a reused Evm: the first transaction runs to completion or is aborted by an
/// injected database read fault (every read position, deviation bound 1); the second one must satisfy the
/// same oracle as on a fresh instance. Nothing is committed, so both see the same world.
pub const A2: Address = revm::primitives::address!("a000000000000000000000000000000000000002");
fn reuse_menu() -> Vec<Vec<Mac>> {
    use CallKind::*;
    let c = |to, value| Mac::Call { kind: Call, to, value, gas: 100_000, out_len: 0 };
    vec![
        vec![],
        vec![c(BOK, 0)],
        vec![c(BNEST, 0)],
        vec![c(BLOGREV, 0), Mac::Log(1)],
        vec![Mac::Log(1)],
        vec![Mac::Create { init: Init::Code1, value: 0 }],
        vec![c(BSD, 0)],
        vec![Mac::Sload(1), c(BWRITE, 0)],
    ]
}
fn reuse_case(spec: SpecId, p1: &[Mac], p2: &[Mac]) -> (TxCase, TxCase) {
    let mut c1 = make_case(spec, TxVar::Legacy, &assemble(p1)).unwrap();
    c1.world.insert(A2, PlainAcc::contract(&assemble(p2)).with_balance(U256::from(10)).with_storage(1, 5));
    c1.tx.gas_limit = 3_000_000;
    let mut c2 = c1.clone();
    c2.tx.to = Some(A2);
    (c1, c2)
}
/// runs (first with a fault at read `fail_at`, then second) on one Evm; returns the second's outcome and
/// recordings, and the number of database reads the first transaction made
pub fn exec_reused(c1: &TxCase, c2: &TxCase, fail_at: Option<u64>, skip_first: bool) -> (Outcome, Both, u64) {
    use crate::props::c31::FaultDb;
    let spec = c1.spec();
    let mut db = FaultDb::new(&c1.world);
    db.fail_at = fail_at;
    let fresh = || {
        let mut e = Both::default();
        e.mon = Mon::new(true);
        e
    };
    let mut evm = Evm::builder().with_db(db).with_external_context(fresh()).with_env(c1.env()).with_spec_id(spec).append_handler_register(monitor_register).append_handler_register(inspector_handle_register).build();
    let mut reads = 0;
    if !skip_first {
        let _ = catch(|| evm.transact());
        reads = evm.context.evm.db.reads.get();
        evm.context.evm.db.fail_at = None;
        evm.context.external = fresh();
    }
    evm.context.evm.inner.env = c2.env();
    let r = catch(|| evm.transact());
    let ext = std::mem::take(&mut evm.context.external);
    let o = match r {
        Ok(Ok(r)) => Outcome::from_result(Ok::<_, revm::primitives::EVMError<String>>(r)),
        Ok(Err(e)) => Outcome { class: Class::Fatal, reason: format!("second transaction failed: {e:?}"), gas_used: 0, gas_refunded: 0, output: Bytes::new(), logs: vec![], created: None, state: Default::default() },
        Err(p) => Outcome { class: Class::Fatal, reason: format!("panic: {p}"), gas_used: 0, gas_refunded: 0, output: Bytes::new(), logs: vec![], created: None, state: Default::default() },
    };
    (o, ext, reads)
}
fn run_reuse(ctx: &Ctx, which: u8) -> Acc {
    let specs: Vec<SpecId> = match ctx.tier {
        Tier::Quick => vec![SpecId::CANCUN],
        Tier::Thorough => vec![SpecId::BYZANTIUM, SpecId::BERLIN, SpecId::CANCUN, SpecId::PRAGUE],
    };
    let menu = reuse_menu();
    let mut jobs = vec![];
    for s in &specs {
        for (i, p1) in menu.iter().enumerate() {
            for (j, p2) in menu.iter().enumerate() {
                jobs.push((*s, i, j, p1.clone(), p2.clone()));
            }
        }
    }
    let accs: Vec<Acc> = jobs
        .par_chunks(2)
        .map(|ch| {
            let mut a = Acc::new();
            for (s, i, j, p1, p2) in ch {
                let (c1, c2) = reuse_case(*s, p1, p2);
                // reads of the undisturbed first transaction bound the fault positions
                let (_, _, n) = exec_reused(&c1, &c2, None, false);
                let (of, extf, _) = exec_reused(&c1, &c2, None, true);
                let mut faults: Vec<Option<u64>> = vec![None];
                faults.extend((0..n).map(Some));
                for f in faults {
                    let (o, ext, _) = exec_reused(&c1, &c2, f, false);
                    a.evaluations += 1;
                    a.states += 1;
                    a.transitions += ext.rec.events.len() as u64;
                    a.bump("reused_instance_second_transactions", 1);
                    let mut v = if which == 29 { check_balanced(&o, &ext) } else { check_selfdestruct(&o, &ext) };
                    if ext.rec.events != extf.rec.events {
                        let at = ext.rec.events.iter().zip(&extf.rec.events).position(|(x, y)| x != y).unwrap_or(ext.rec.events.len().min(extf.rec.events.len()));
                        v.push(("notifications-differ-on-reused-instance".into(), format!("{} notifications on the reused instance, {} on a fresh one; first difference at #{at}: {:?} vs {:?}", ext.rec.events.len(), extf.rec.events.len(), ext.rec.events.get(at), extf.rec.events.get(at))));
                    }
                    // and the result itself: class, gas, output, logs, touched accounts
                    if which == 29 && outcome_proj(&o) != outcome_proj(&of) {
                        v.push(("result-differs-on-reused-instance".into(), format!("reused instance: {:?} {} gas {} refund {} logs {}; fresh instance: {:?} {} gas {} refund {} logs {}", o.class, o.reason, o.gas_used, o.gas_refunded, o.logs.len(), of.class, of.reason, of.gas_used, of.gas_refunded, of.logs.len())));
                    }
                    a.distinct(&("reuse", s, i, j, f, &o.class, ext.rec.events.len()));
                    a.outcome(&format!("reuse:{}", if f.is_some() { "after-fault" } else { "after-complete" }));
                    for (k, m) in v {
                        a.violation(Violation { key: k, msg: format!("{s:?} second transaction {p2:?} after {p1:?} (database fault at read {f:?}) on one Evm: {m}"), case: json!({"reuse": {"c1": c1, "c2": c2, "fail_at": f}}) });
                    }
                }
            }
            a
        })
        .collect();
    merge_all(accs)
}
fn outcome_proj(o: &Outcome) -> (Class, String, u64, u64, Bytes, Vec<Log>, Vec<(Address, U256, u64, Vec<(U256, U256)>)>) {
    let mut st: Vec<(Address, U256, u64, Vec<(U256, U256)>)> = o
        .state
        .iter()
        .filter(|(_, a)| a.is_touched())
        .map(|(a, acc)| {
            let mut sl: Vec<(U256, U256)> = acc.storage.iter().map(|(k, s)| (*k, s.present_value)).collect();
            sl.sort();
            (*a, acc.info.balance, acc.info.nonce, sl)
        })
        .collect();
    st.sort();
    (o.class.clone(), o.reason.clone(), o.gas_used, o.gas_refunded, o.output.clone(), o.logs.clone(), st)
}
fn replay_reuse(case: &Value, which: u8) -> Option<Vec<Violation>> {
    let r = case.get("reuse")?;
    let c1: TxCase = serde_json::from_value(r["c1"].clone()).ok()?;
    let c2: TxCase = serde_json::from_value(r["c2"].clone()).ok()?;
    let f = r["fail_at"].as_u64();
    let (o, ext, _) = exec_reused(&c1, &c2, f, false);
    let (of, extf, _) = exec_reused(&c1, &c2, None, true);
    let mut v = if which == 29 { check_balanced(&o, &ext) } else { check_selfdestruct(&o, &ext) };
    if ext.rec.events != extf.rec.events {
        v.push(("notifications-differ-on-reused-instance".into(), format!("{} notifications on the reused instance, {} on a fresh one", ext.rec.events.len(), extf.rec.events.len())));
    }
    if which == 29 && outcome_proj(&o) != outcome_proj(&of) {
        v.push(("result-differs-on-reused-instance".into(), format!("reused instance: {:?} {} gas {}; fresh instance: {:?} {} gas {}", o.class, o.reason, o.gas_used, of.class, of.reason, of.gas_used)));
    }
    Some(v.into_iter().map(|(k, m)| Violation { key: k, msg: m, case: case.clone() }).collect())
}

fn parse_cut(v: &Value) -> Option<(usize, InstructionResult)> {
    let a = v.as_array()?;
    let k = a.first()?.as_u64()? as usize;
    let r = match a.get(1)?.as_str()? {
        "Stop" => InstructionResult::Stop,
        "Revert" => InstructionResult::Revert,
        "OutOfGas" => InstructionResult::OutOfGas,
        _ => InstructionResult::Stop,
    };
    Some((k, r))
}
pub fn replay29(case: &Value) -> Vec<Violation> {
    if let Some(v) = replay_reuse(case, 29) {
        return v;
    }
    let c: TxCase = serde_json::from_value(case["case"].clone()).unwrap();
    let (o, ext) = exec_both(&c, parse_cut(&case["cut_call"]), parse_cut(&case["cut_create"]));
    check_balanced(&o, &ext).into_iter().map(|(k, m)| Violation { key: k, msg: m, case: case.clone() }).collect()
}
pub fn replay30(case: &Value) -> Vec<Violation> {
    if let Some(v) = replay_reuse(case, 30) {
        return v;
    }
    let c: TxCase = serde_json::from_value(case["case"].clone()).unwrap();
    let (o, ext) = exec_both(&c, None, None);
    check_selfdestruct(&o, &ext).into_iter().map(|(k, m)| Violation { key: k, msg: m, case: case.clone() }).collect()
}

pub fn run29(ctx: &Ctx) -> i32 {
    let mut acc = run_generic(ctx, 29);
    acc.merge(run_reuse(ctx, 29));
    let meta = Meta {
        rule: "every macro program of depth <= 2 over the inspector alphabet (general alphabet + low-gas / value / static calls to a self-destructing contract, a depth-limit probe, a bare SELFDESTRUCT) x 5 transaction variants x 7 inspector behaviours (observe only; return an outcome from the 1st/2nd/3rd call or 1st/2nd create) on 7 (quick) / 19 (thorough) specs, plus 8 EOF driver containers (EOFCREATE of succeeding / reverting init containers, EXTCALL, EXTDELEGATECALL to a legacy target, EXTSTATICCALL, an EOF creation transaction) under OSAKA; plus second transactions on a reused Evm: 8 x 8 program pairs, the first transaction completing or aborted by an injected database read fault at every read position, the second checked by the same oracle and against its notifications on a fresh instance; distinct = distinct (spec, result, frame count, selfdestructs, logs)".into(),
        assumptions: vec!["ground truth for executed instructions, appended logs and frame attempts comes from the harness monitor registered underneath the inspector".into(), "a transaction that itself ends with a database error is outside the quantifier (its notifications are not judged); the transaction after it on the same Evm is inside".into()],
        bounds: json!({"depth": 2, "macros": insp_alphabet().len(), "inspector_behaviours": 7}),
        min_distinct: 200,
        exhaustive: true,
        explanation: "the callback sequence must parse as properly nested call/create ... end pairs carrying equal inputs; step/step_end alternate; one log notification per appended log".into(),
    };
    finish(ctx, acc, meta, &replay29)
}
pub fn run30(ctx: &Ctx) -> i32 {
    let mut acc = run_generic(ctx, 30);
    acc.merge(run_reuse(ctx, 30));
    let meta = Meta {
        rule: "every macro program of depth <= 2 (thorough: <= 3 on LONDON and CANCUN) over the inspector alphabet x 5 transaction variants (incl. entered with value, created in the same transaction) on 7/19 specs; distinct = distinct (spec, result, frames, completed and failed selfdestructs, logs)".into(),
        assumptions: vec!["ground truth = every opcode 0xff execution that ended with SelfDestruct: executing address, popped beneficiary, and the executing contract's balance before minus after, read by the step monitor from the public journaled state".into(), "beneficiaries whose balance would overflow are excluded (see C08 known finding)".into()],
        bounds: json!({"depth": 2, "macros": insp_alphabet().len()}),
        min_distinct: 200,
        exhaustive: true,
        explanation: "the list of selfdestruct notifications must equal the list of completed SELFDESTRUCT instructions".into(),
    };
    finish(ctx, acc, meta, &replay30)
}
