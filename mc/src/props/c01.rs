//! C01: transactions execute exactly as the Ethereum execution specification says — E2 + R.
//!
//! Every enumerated case (raw byte strings, macro programs with callee / init-code menus, transaction
//! variants, all mainnet specs) is executed by revm and by the reference EVM R (`refevm.rs`); outcome
//! class, gas used, return data, logs and the complete post-state must agree. R itself is bound to the
//! specification by the execution-spec state-test vectors shipped with the repository (`vectors`).
use crate::exec::*;
use crate::fw::*;
use crate::gen::*;
use crate::macros::*;
use crate::props::c32::ref_fake_exp;
use crate::refevm::*;
use crate::world::*;
use num_traits::ToPrimitive;
use rayon::prelude::*;
use revm::primitives::{Bytes, SpecId, B256, U256};
use serde_json::{json, Value};

pub fn to_rworld(p: &Plain) -> RWorld {
    p.iter().map(|(a, acc)| (*a, RAcc { balance: acc.balance, nonce: acc.nonce, code: acc.code.clone(), storage: acc.storage.iter().filter(|(_, v)| !v.is_zero()).map(|(k, v)| (*k, *v)).collect() })).collect()
}
pub fn renv(c: &TxCase) -> REnv {
    let spec = c.spec();
    let frac = if spec.is_enabled_in(SpecId::PRAGUE) { 5007716u64 } else { 3338477 };
    let price = ref_fake_exp(1, c.block.excess_blob_gas, frac).and_then(|p| p.to_u128()).unwrap_or(u128::MAX);
    REnv {
        number: U256::from(c.block.number),
        timestamp: U256::from(c.block.timestamp),
        coinbase: c.block.coinbase,
        difficulty: U256::from(0x20000),
        prevrandao: B256::with_last_byte(0x77),
        gas_limit: c.block.gas_limit,
        basefee: c.block.basefee,
        blob_gasprice: U256::from(price),
        chain_id: 1,
    }
}
pub fn rtx(c: &TxCase) -> RTx {
    let t = &c.tx;
    RTx {
        caller: t.caller,
        to: t.to,
        value: t.value,
        data: t.data.clone(),
        gas_limit: t.gas_limit,
        gas_price: t.gas_price,
        priority_fee: t.priority_fee,
        nonce: t.nonce,
        chain_id: t.chain_id,
        access_list: t.access_list.clone(),
        blob_hashes: t.blob_hashes.clone(),
        max_fee_per_blob_gas: t.max_fee_per_blob_gas,
        auth_list: t.auth_list.as_ref().map(|l| l.iter().map(|a| RAuth { chain_id: U256::from(a.chain_id), address: a.address, nonce: a.nonce, authority: a.authority }).collect()),
    }
}

/// differences between revm and R on one case (empty = agreement)
pub fn compare(c: &TxCase) -> (Vec<(String, String)>, String, u64) {
    let mut v = vec![];
    let spec = c.spec();
    let (o, post) = {
        let o = exec(c);
        let mut p = c.world.clone();
        commit_plain(&mut p, &o.state, spec);
        (o, p)
    };
    let mut rw = to_rworld(&c.world);
    let r = catch(|| transact(spec, &renv(c), &rtx(c), &mut rw, false));
    let r = match r {
        Ok(r) => r,
        Err(p) => {
            v.push(("reference-panicked".into(), format!("MACHINERY: the reference EVM panicked: {p}")));
            return (v, "ref-panic".into(), 0);
        }
    };
    let sig;
    match (&o.class, &r) {
        (Class::Fatal, _) => {
            v.push((if o.reason.starts_with("panic") { "panic".to_string() } else { "fatal".to_string() }, o.reason.clone()));
            return (v, "fatal".into(), 0);
        }
        (Class::Invalid, ROutcome::Invalid(_)) => return (v, "invalid".into(), 0),
        (Class::Invalid, ROutcome::Done(d)) => {
            v.push(("validity".into(), format!("revm rejects the transaction ({}), the specification executes it ({:?})", o.reason, d.class)));
            return (v, "validity".into(), 0);
        }
        (_, ROutcome::Invalid(e)) => {
            v.push(("validity".into(), format!("revm executes the transaction ({:?}), the specification rejects it ({e})", o.class)));
            return (v, "validity".into(), 0);
        }
        (_, ROutcome::Done(d)) => {
            let rc = match d.class {
                RClass::Success => Class::Success,
                RClass::Revert => Class::Revert,
                RClass::Halt => Class::Halt,
            };
            sig = format!("{:?}/{}", o.class, o.reason);
            if o.class != rc {
                v.push(("outcome-class".into(), format!("revm: {:?} ({}), specification: {:?}", o.class, o.reason, d.class)));
            }
            if o.gas_used != d.gas_used {
                v.push(("gas-used".into(), format!("revm: gas used {} (refunded {}), specification: {} (refunded {}); outcome {:?}/{}", o.gas_used, o.gas_refunded, d.gas_used, d.refunded, o.class, o.reason)));
            }
            let r_out: Bytes = d.output.clone();
            if o.output != r_out {
                v.push(("return-data".into(), format!("revm returned 0x{}, specification 0x{}", hex::encode(&o.output[..o.output.len().min(64)]), hex::encode(&r_out[..r_out.len().min(64)]))));
            }
            if o.created != d.created && o.class == Class::Success {
                v.push(("created-address".into(), format!("revm: {:?}, specification {:?}", o.created, d.created)));
            }
            let same_logs = o.logs.len() == d.logs.len() && o.logs.iter().zip(d.logs.iter()).all(|(a, b)| a.address == b.address && a.data.topics() == &b.topics[..] && a.data.data == b.data);
            if !same_logs {
                v.push(("logs".into(), format!("revm emitted {} logs, specification {}", o.logs.len(), d.logs.len())));
            }
        }
    }
    // post-state
    let addrs: std::collections::BTreeSet<_> = post.keys().chain(rw.keys()).cloned().collect();
    for a in addrs {
        let (x, y) = (post.get(&a), rw.get(&a));
        match (x, y) {
            (Some(x), Some(y)) => {
                if x.balance != y.balance || x.nonce != y.nonce || x.code != y.code {
                    v.push(("post-state:account".into(), format!("{}: revm balance {} nonce {} code {} bytes; specification balance {} nonce {} code {} bytes", addr_name(a), x.balance, x.nonce, x.code.len(), y.balance, y.nonce, y.code.len())));
                    break;
                }
                let xs: Vec<_> = x.storage.iter().filter(|(_, v)| !v.is_zero()).collect();
                let ys: Vec<_> = y.storage.iter().filter(|(_, v)| !v.is_zero()).collect();
                if xs != ys {
                    v.push(("post-state:storage".into(), format!("{}: revm storage {:?}, specification {:?}", addr_name(a), xs, ys)));
                    break;
                }
            }
            (Some(_), None) => {
                v.push(("post-state:existence".into(), format!("{} exists after the transaction in revm, not in the specification", addr_name(a))));
                break;
            }
            (None, Some(_)) => {
                v.push(("post-state:existence".into(), format!("{} exists after the transaction in the specification, not in revm", addr_name(a))));
                break;
            }
            (None, None) => {}
        }
    }
    (v, sig, o.gas_used)
}

/// first instruction at which the gas traces of revm and R diverge (for messages)
pub fn first_divergence(c: &TxCase) -> String {
    let (_, mon, _) = exec_monitored(c, true);
    let mut rw = to_rworld(&c.world);
    let r = transact(c.spec(), &renv(c), &rtx(c), &mut rw, true);
    let ROutcome::Done(d) = r else { return String::new() };
    for (i, s) in mon.steps.iter().enumerate() {
        match d.trace.get(i) {
            Some((depth, pc, op, gas)) => {
                if *pc as usize != s.pc || *op != s.op || *gas != s.gas_before {
                    return format!("first divergence at instruction #{i}: revm depth {} pc {} op 0x{:02x} gas {}; specification depth {} pc {pc} op 0x{op:02x} gas {gas}", s.depth, s.pc, s.op, s.gas_before, depth + 1);
                }
            }
            None => return format!("revm executes instruction #{i} (pc {} op 0x{:02x}), the specification has stopped", s.pc, s.op),
        }
    }
    if d.trace.len() > mon.steps.len() {
        return format!("the specification executes {} instructions, revm {}", d.trace.len(), mon.steps.len());
    }
    "instruction and gas traces agree".into()
}

pub fn replay(case: &Value) -> Vec<Violation> {
    if case.get("vector").is_some() {
        return crate::props::c01v::replay(case);
    }
    let c: TxCase = serde_json::from_value(case["case"].clone()).unwrap();
    compare(&c).0.into_iter().map(|(k, m)| Violation { key: k, msg: format!("{m}; {}", first_divergence(&c)), case: case.clone() }).collect()
}

const T: u8 = 36;
fn raw_program(body: &[u8], prefix: bool) -> Vec<u8> {
    let mut a = crate::asm::Asm::new();
    if prefix {
        for _ in 0..17 {
            a = a.push_u(T as u64);
        }
    }
    let mut v = a.build();
    v.extend_from_slice(body);
    v.extend_from_slice(&[0x5b, 0x5b, 0x00]);
    v
}

pub fn run(ctx: &Ctx) -> i32 {
    let specs = MAINNET_SPECS.to_vec();
    // balances that would exceed 2^256-1 have no specified behaviour: value into the 2^256-1 holder is left out
    let alpha: Vec<Mac> = general_alphabet()
        .into_iter()
        .filter(|m| !matches!(m, Mac::Call { to, value, .. } if *to == RICH && *value > 0) && !matches!(m, Mac::SelfDestruct(x) if *x == RICH) && !matches!(m, Mac::Create2 { salt, .. } if *salt == OVF_SALT))
        .collect();
    let mut jobs: Vec<(SpecId, Vec<u8>, String, bool)> = vec![];
    let deep: Vec<SpecId> = match ctx.tier {
        Tier::Quick => vec![],
        Tier::Thorough => vec![SpecId::FRONTIER, SpecId::BYZANTIUM, SpecId::BERLIN, SpecId::CANCUN, SpecId::PRAGUE],
    };
    for s in &specs {
        let a = alphabet_for(*s, &alpha);
        let d = if deep.contains(s) { 3 } else { 2 };
        for seq in sequences(&a, d) {
            jobs.push((*s, assemble(&seq), format!("{seq:?}"), true));
        }
        // raw byte strings: every opcode byte and (thorough) every pair, bare and behind 17 operands
        for prefix in [false, true] {
            for b in 0..=255u8 {
                jobs.push((*s, raw_program(&[b], prefix), format!("raw {b:02x} prefix={prefix}"), false));
                if ctx.tier == Tier::Thorough || b % 4 == (ctx.seed % 4) as u8 {
                    for b2 in 0..=255u8 {
                        jobs.push((*s, raw_program(&[b, b2], prefix), format!("raw {b:02x}{b2:02x} prefix={prefix}"), false));
                    }
                }
            }
        }
    }
    let vars = TxVar::all();
    let accs: Vec<Acc> = jobs
        .par_chunks(32)
        .map(|ch| {
            let mut a = Acc::new();
            for (s, code, name, all_vars) in ch {
                if ctx.over_budget() {
                    a.capped = true;
                    break;
                }
                for var in &vars {
                    // (disabling the beneficiary reward is a revm configuration, not a protocol rule)
                    if *var == TxVar::NoReward {
                        continue;
                    }
                    if !*all_vars && !matches!(var, TxVar::Legacy | TxVar::Value1 | TxVar::TightGas(30_000) | TxVar::CreateTx) {
                        continue;
                    }
                    let Some(case) = make_case(*s, *var, code) else { continue };
                    let (v, sig, gas) = compare(&case);
                    a.evaluations += 1;
                    a.states += 1;
                    a.transitions += 1;
                    a.traces += 1;
                    a.distinct(&(s, &sig, gas));
                    a.outcome(&sig);
                    if a.samples.is_empty() && *all_vars && code.len() > 20 {
                        a.sample(|| json!({"spec": spec_name(*s), "tx": format!("{var:?}"), "program": name, "code": hex::encode(code), "both": sig, "gas_used": gas}));
                    }
                    for (k, m) in v {
                        let m2 = format!("{s:?} {var:?} {name}: {m}; {}", first_divergence(&case));
                        a.violation(Violation { key: k, msg: m2, case: json!({"program": name, "case": case}) });
                    }
                }
            }
            a
        })
        .collect();
    let mut acc = merge_all(accs);
    acc.bump("enumerated_cases", acc.evaluations);
    // binding of R (and revm) to the shipped execution-spec vectors
    let vb = crate::props::c01v::run_vectors(ctx);
    let bad = vb.extra.get("vectors_R_MISMATCH").copied().unwrap_or(0) + vb.extra.get("vectors_neither_reproduces").copied().unwrap_or(0);
    if bad > 0 {
        eprintln!("MACHINERY: the reference EVM does not reproduce {bad} of the shipped execution-spec vectors (run with VERIF_DEBUG=1 to list them); its verdicts are not trusted");
        return 2;
    }
    acc.merge(vb);
    let meta = Meta {
        rule: "every macro program of depth <= 2 (thorough: <= 3 on 5 specs) over the 69-macro alphabet (calls of all kinds to returning / reverting / halting / writing / self-destructing / nested / code-less / precompile / delegated targets with and without value, creates with 9 init codes, storage, transient storage, logs, memory, self-destructs) x 15 transaction variants (legacy, value, EIP-1559 capped and uncapped, tight gas, sender = coinbase, access list, blob, create, set-code, zero price, calldata), and every opcode byte / every 4th (quick) or every (thorough) opcode pair bare and behind 17 operands x 4 transaction variants, on all 19 mainnet specs: executed by revm and by the reference EVM R; distinct = distinct (spec, outcome, gas used); traces_validated_against_impl = enumerated cases compared with the implementation + shipped state-test vectors on which R reproduces the expected post-state root and logs hash".into(),
        assumptions: vec![
            "R shares ruint arithmetic, keccak256 and the precompile bodies with revm (checked separately by C03 / C23) and nothing else".into(),
            "R is bound to the specification by the execution-spec state tests shipped in /repo/tests: it must reproduce every vector it runs (see counters)".into(),
            "CONSTANTINOPLE is executed with Petersburg rules on both sides; OSAKA / EOF has no reference".into(),
        ],
        bounds: json!({"specs": specs.len(), "macro_depth": 2, "tx_variants": 15}),
        min_distinct: 1000,
        exhaustive: true,
        explanation: "outcome class, gas used, return data, logs and full post-state equal the reference EVM on every enumerated case".into(),
    };
    finish(ctx, acc, meta, &replay)
}
