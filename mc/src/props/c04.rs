//! C04: a jump is accepted only onto a real JUMPDEST outside push data — E2 over byte strings.
use crate::fw::*;
use crate::interp;
use rayon::prelude::*;
use revm::interpreter::analysis::to_analysed;
use revm::interpreter::{InstructionResult, Interpreter};
use revm::primitives::{Bytecode, Bytes, SpecId, U256};
use serde_json::{json, Value};

const ALPHA: [u8; 8] = [0x5b, 0x60, 0x61, 0x7e, 0x7f, 0x00, 0x56, 0x01];

/// Yellow Paper definition: positions of JUMPDEST bytes that are instructions, by a linear scan.
pub fn valid_dests(code: &[u8]) -> Vec<bool> {
    let mut v = vec![false; code.len()];
    let mut i = 0;
    while i < code.len() {
        let op = code[i];
        if op == 0x5b {
            v[i] = true;
            i += 1;
        } else if (0x60..=0x7f).contains(&op) {
            i += 1 + (op - 0x5f) as usize;
        } else {
            i += 1;
        }
    }
    v
}

fn huge_targets() -> Vec<U256> {
    vec![
        U256::from(1u64 << 32),
        U256::from(u64::MAX),
        U256::from(1u128 << 64),
        U256::from(usize::MAX),
        (U256::from(1) << 64) | U256::from(1),
        U256::MAX,
        U256::from(1) << 255,
    ]
}

/// Check one (code, target): table answers (eager and lazy) and, if `exec`, real JUMP / JUMPI.
fn check_target(code: &[u8], valid: &[bool], eager: &Bytecode, it: &mut Interpreter, target: U256, exec: bool, out: &mut Vec<(String, String)>) -> bool {
    let t_us: Option<usize> = if target <= U256::from(usize::MAX) { Some(target.to::<usize>()) } else { None };
    let expect = t_us.map(|t| t < code.len() && valid[t]).unwrap_or(false);
    if let Some(t) = t_us {
        let a = eager.legacy_jump_table().map(|j| j.is_valid(t)).unwrap_or(false);
        if a != expect {
            out.push(("jump-table-eager".into(), format!("to_analysed jump table says {a} for target {t}, definition says {expect}")));
        }
        let b = it.contract.is_valid_jump(t);
        if b != expect {
            out.push(("jump-table-lazy".into(), format!("Contract::is_valid_jump says {b} for target {t}, definition says {expect}")));
        }
    }
    if exec {
        let tbl = TABLE.with(|t| *t);
        let mut h = interp::host();
        for mode in 0..3u8 {
            // reset the interpreter to the start of the code
            it.instruction_pointer = it.bytecode.as_ptr();
            it.instruction_result = InstructionResult::Continue;
            it.stack.data_mut().clear();
            it.gas = revm::interpreter::Gas::new(1_000_000);
            let (opc, jumps) = match mode {
                0 => {
                    it.stack.push(target).unwrap();
                    (0x56usize, true)
                }
                1 => {
                    it.stack.push(U256::from(1)).unwrap();
                    it.stack.push(target).unwrap();
                    (0x57, true)
                }
                _ => {
                    it.stack.push(U256::ZERO).unwrap();
                    it.stack.push(target).unwrap();
                    (0x57, false)
                }
            };
            (tbl[opc])(it, &mut h);
            let res = it.instruction_result;
            let pc = it.program_counter();
            let ok = if !jumps {
                res == InstructionResult::Continue && pc == 0 && it.stack.len() == 0
            } else if expect {
                res == InstructionResult::Continue && Some(pc) == t_us && it.stack.len() == 0
            } else {
                res == InstructionResult::InvalidJump
            };
            if !ok {
                out.push((
                    format!("jump-exec-{}", ["JUMP", "JUMPI-taken", "JUMPI-not-taken"][mode as usize]),
                    format!("target {target}: result {res:?}, pc {pc}, definition says valid={expect}"),
                ));
            }
        }
    }
    expect
}

thread_local! {
    static TABLE: revm::interpreter::opcode::InstructionTable<revm::interpreter::DummyHost> = interp::table(SpecId::CANCUN);
}

fn check_code(code: &[u8], exec_all: bool, a: &mut Acc) {
    if let Err(p) = catch(|| check_code_inner(code, exec_all, a)) {
        a.violation(Violation { key: "panic".into(), msg: format!("code 0x{}: panic {p}", hex::encode(code)), case: json!({"code": hex::encode(code)}) });
    }
}
fn check_code_inner(code: &[u8], exec_all: bool, a: &mut Acc) {
    let valid = valid_dests(code);
    let eager = to_analysed(Bytecode::new_legacy(Bytes::copy_from_slice(code)));
    let mut it = interp::new_interp(code, 1_000_000);
    let mut errs = vec![];
    let n = code.len();
    let mut nvalid = 0u32;
    for t in 0..=(n + 40) {
        // interpreter runs for every target on short strings, for boundary targets on longer ones
        let exec = exec_all || t + 2 >= n && t <= n + 34 || t < 2;
        if check_target(code, &valid, &eager, &mut it, U256::from(t), exec, &mut errs) {
            nvalid += 1;
        }
        a.transitions += if exec { 5 } else { 2 };
    }
    for t in huge_targets() {
        check_target(code, &valid, &eager, &mut it, t, true, &mut errs);
        a.transitions += 5;
    }
    a.evaluations += 1;
    a.states += 1;
    a.distinct(&(&valid, n));
    a.outcome(&format!("valid-dests={}", nvalid.min(4)));
    for (k, m) in errs {
        a.violation(Violation { key: k, msg: format!("code 0x{}: {m}", hex::encode(code)), case: json!({"code": hex::encode(code)}) });
    }
}

pub fn replay(case: &Value) -> Vec<Violation> {
    let code = hex::decode(case["code"].as_str().unwrap()).unwrap();
    let mut a = Acc::new();
    check_code(&code, true, &mut a);
    a.violations
}

fn strings_over(alpha: &[u8], len: usize, idx: u64) -> Vec<u8> {
    let mut v = Vec::with_capacity(len);
    let mut x = idx;
    for _ in 0..len {
        v.push(alpha[(x % alpha.len() as u64) as usize]);
        x /= alpha.len() as u64;
    }
    v
}

pub fn run(ctx: &Ctx) -> i32 {
    let max_len = ctx.tier.pick(7usize, 10usize);
    let exec_len = 7usize;
    let mut acc = Acc::new();
    // (1) all strings over the 8-byte alphabet up to max_len
    for len in 0..=max_len {
        let total = (ALPHA.len() as u64).pow(len as u32);
        let chunk = 4096u64;
        let nchunks = (total + chunk - 1) / chunk;
        let accs: Vec<Acc> = (0..nchunks)
            .into_par_iter()
            .map(|c| {
                let mut a = Acc::new();
                if ctx.over_budget() {
                    a.capped = true;
                    return a;
                }
                for i in (c * chunk)..((c + 1) * chunk).min(total) {
                    let code = strings_over(&ALPHA, len, i);
                    check_code(&code, len <= exec_len, &mut a);
                }
                a
            })
            .collect();
        acc.merge(merge_all(accs));
    }
    // (2) all strings of length <= 2 over all 256 bytes
    let all: Vec<u8> = (0..=255u8).collect();
    for len in 1..=2usize {
        let total = 256u64.pow(len as u32);
        let accs: Vec<Acc> = (0..total)
            .into_par_iter()
            .fold(Acc::new, |mut a, i| {
                let code = strings_over(&all, len, i);
                check_code(&code, true, &mut a);
                a
            })
            .collect();
        acc.merge(merge_all(accs));
    }
    acc.sample(|| json!({"code":"605b5b","targets":"0..=43 and 7 huge values","valid_destinations":[2]}));
    acc.sample(|| json!({"code":"7f5b","note":"JUMPDEST byte inside truncated PUSH32 data is not a destination"}));
    let meta = Meta {
        rule: format!("every byte string of length <= {max_len} over {{5b,60,61,7e,7f,00,56,01}} and of length <= 2 over all bytes, x every target 0..=len+40 and 7 huge targets; eager and lazy analysis plus real JUMP/JUMPI (all targets for length <= {exec_len}, boundary and huge targets above); distinct = distinct valid-destination vectors"),
        assumptions: vec!["JUMP/JUMPI are executed by calling the real instruction functions on a real Interpreter over the analysed code".into()],
        bounds: json!({"max_len": max_len, "alphabet": "5b 60 61 7e 7f 00 56 01", "all_bytes_len": 2}),
        min_distinct: 50,
        exhaustive: true,
        explanation: "oracle is the Yellow Paper linear scan".into(),
    };
    finish(ctx, acc, meta, &replay)
}
