//! C07: call depth is bounded at 1024 and independent of earlier sibling calls — E2 + frame monitor.
use crate::asm::{op, Asm};
use crate::exec::*;
use crate::fw::*;
use crate::macros::*;
use crate::world::*;
use rayon::prelude::*;
use revm::interpreter::InstructionResult;
use revm::primitives::{SpecId, U256};
use serde_json::{json, Value};

fn alphabet() -> Vec<Mac> {
    use CallKind::*;
    let c = |kind, to, value, gas| Mac::Call { kind, to, value, gas, out_len: 0 };
    vec![
        c(Call, BOK, 0, 100000),
        c(Call, BREV, 0, 100000),
        c(Call, BHALT, 0, 50000),
        c(Call, ID, 0, 1000),
        c(Call, ECREC, 0, 10),
        c(Call, BOK, 1000, 100000),
        c(Call, RICH, 1, 100000),
        c(Call, EMPTY, 1, 100000),
        c(CallCode, BOK, 0, 100000),
        c(DelegateCall, BOK, 0, 100000),
        c(StaticCall, BOK, 0, 100000),
        c(StaticCall, BWRITE, 0, 100000),
        c(Call, BSD, 0, 100000),
        c(Call, BNEST, 0, 200000),
        Mac::Create { init: Init::Empty, value: 0 },
        Mac::Create { init: Init::Revert, value: 0 },
        Mac::Create { init: Init::Halt, value: 0 },
        Mac::Create { init: Init::Empty, value: 1000 },
        Mac::Create { init: Init::Ef, value: 0 },
        Mac::Create2 { init: Init::Code1, value: 0, salt: 0 },
        Mac::Create2 { init: Init::Revert, value: 1, salt: 1 },
        Mac::Create2 { init: Init::Empty, value: 1, salt: OVF_SALT },
    ]
}

pub fn build_case(spec: SpecId, prefix: &[Mac], nonce_max: bool) -> TxCase {
    let mut a = Asm::new();
    for m in prefix {
        a = m.emit(a);
    }
    // probe: CALL(gas-2000, PROBE, 0, 0, 0, 0, 32); POP; RETURN(0, 32)
    let code = a
        .push_u(0)
        .push_u(0)
        .op(op::MSTORE)
        .push_u(32)
        .push_u(0)
        .push_u(0)
        .push_u(0)
        .push_u(0)
        .push_addr(PROBE)
        .push_u(2000)
        .op(op::GAS)
        .op(op::SUB)
        .op(op::CALL)
        .op(op::POP)
        .push_u(32)
        .push_u(0)
        .op(op::RETURN)
        .build();
    let mut w = std_world();
    let mut acc = PlainAcc::contract(&code).with_balance(U256::from(10));
    if nonce_max {
        acc.nonce = u64::MAX;
    }
    w.insert(A, acc);
    let mut c = TxCase::new(spec, w);
    c.tx.gas_limit = 1u64 << 62;
    c.block.gas_limit = U256::from(1u64 << 63);
    c
}

pub fn check_case(case: &TxCase) -> (Vec<(String, String)>, String) {
    let (o, mon, end_depth) = exec_monitored(case, false);
    let mut v = vec![];
    if o.class != Class::Success {
        v.push(("probe-transaction-failed".to_string(), format!("{:?} {}", o.class, o.reason)));
        return (v, format!("{:?}", o.class));
    }
    for (i, a) in mon.attempts.iter().enumerate() {
        match a.depth_after {
            Some(d) if d == a.depth_before => {}
            Some(d) => {
                v.push((
                    format!("frame-depth-leak:{:?}:{}:{:?}", a.kind, a.scheme, a.result.unwrap_or(InstructionResult::Continue)),
                    format!("frame attempt #{i} ({:?} {} to {}) started at journal depth {} and returned at depth {} with {:?}", a.kind, a.scheme, a.target, a.depth_before, d, a.result),
                ));
                break;
            }
            None => {
                v.push(("frame-never-closed".to_string(), format!("frame attempt #{i} ({:?} {}) has no matching return", a.kind, a.scheme)));
                break;
            }
        }
    }
    if end_depth != 0 {
        v.push(("end-depth".to_string(), format!("journal depth is {end_depth} after the transaction")));
    }
    let reached = U256::from_be_slice(&o.output).to::<u64>();
    if reached != 1023 {
        v.push(("probe-depth".to_string(), format!("depth probe started at level 2 completed {reached} nested calls, expected 1023 (1024 levels below the transaction frame)")));
    }
    if mon.max_depth_seen != 1025 {
        v.push(("max-depth".to_string(), format!("deepest executing frame had journal depth {}, expected 1025", mon.max_depth_seen)));
    }
    let too_deep = mon.attempts.iter().filter(|a| a.result == Some(InstructionResult::CallTooDeep)).count();
    if too_deep != 1 {
        v.push(("too-deep-count".to_string(), format!("{too_deep} attempts were rejected as too deep, expected exactly 1")));
    }
    let sig: Vec<String> = mon.attempts.iter().take(6).map(|a| format!("{:?}", a.result.unwrap_or(InstructionResult::Continue))).collect();
    (v, sig.join(","))
}

pub fn replay(case: &Value) -> Vec<Violation> {
    if case.get("history").is_some() {
        return crate::props::c07b::replay(case);
    }
    let c: TxCase = serde_json::from_value(case["case"].clone()).unwrap();
    check_case(&c).0.into_iter().map(|(k, m)| Violation { key: k, msg: m, case: case.clone() }).collect()
}

pub fn run(ctx: &Ctx) -> i32 {
    let depth = ctx.tier.pick(2, 3);
    let specs = [SpecId::FRONTIER, SpecId::TANGERINE, SpecId::BYZANTIUM, SpecId::PETERSBURG, SpecId::CANCUN, SpecId::PRAGUE];
    let mut jobs: Vec<(SpecId, Vec<Mac>, bool)> = vec![];
    for s in specs {
        let alpha: Vec<Mac> = alphabet()
            .into_iter()
            .filter(|m| s.is_enabled_in(m.since()))
            // before EIP-150 a create forwards all gas, so a halting init code would leave nothing for the probe
            .filter(|m| s.is_enabled_in(SpecId::TANGERINE) || !matches!(m, Mac::Create { init: Init::Revert | Init::Halt, .. }))
            .collect();
        for seq in sequences(&alpha, depth) {
            jobs.push((s, seq.clone(), false));
        }
        // creator nonce at 2^64-1: every create attempt is rejected early
        let creates: Vec<Mac> = alpha.iter().filter(|m| matches!(m, Mac::Create { .. } | Mac::Create2 { .. })).cloned().collect();
        for seq in sequences(&creates, 2) {
            jobs.push((s, seq, true));
        }
    }
    // deterministic order; VERIF_SEED only rotates which shard is visited first
    let rot = (ctx.seed as usize) % jobs.len().max(1);
    jobs.rotate_left(rot);
    let accs: Vec<Acc> = jobs
        .par_chunks(8)
        .map(|ch| {
            let mut a = Acc::new();
            for (s, seq, nm) in ch {
                if ctx.over_budget() {
                    a.capped = true;
                    break;
                }
                let case = build_case(*s, seq, *nm);
                let (v, sig) = check_case(&case);
                a.evaluations += 1;
                a.states += 1;
                a.transitions += 1 + seq.len() as u64;
                a.distinct(&(s, &sig));
                a.outcome(&sig);
                if seq.len() == depth && a.samples.is_empty() {
                    a.sample(|| json!({"spec": spec_name(*s), "prefix": format!("{seq:?}"), "attempt_results": sig}));
                }
                for (k, m) in v {
                    a.violation(Violation { key: k, msg: format!("{:?} prefix {:?}: {m}", s, seq), case: json!({"prefix": format!("{seq:?}"), "case": case}) });
                }
            }
            a
        })
        .collect();
    let mut acc = merge_all(accs);
    acc.merge(crate::props::c07b::run_b(ctx));
    let meta = Meta {
        rule: format!("every sequence of <= {depth} frame attempts from a 22-macro alphabet (ok/revert/halt calls, precompile ok/fail, out-of-funds, overflow, CALLCODE/DELEGATECALL/STATICCALL, creates ok/revert/halt/out-of-funds/0xEF/collision/endowment overflow, nonce overflow) on 6 specs, followed by a self-calling depth probe; distinct = distinct (spec, attempt result sequence)"),
        assumptions: vec!["journal depth is read from the public JournaledState::depth() in wrappers around the execution handles".into(), "EXT*/EOFCREATE attempts (OSAKA) are covered by the direct make_call_frame exploration in this module's second part when built".into()],
        bounds: json!({"prefix_len": depth, "macros": alphabet().len(), "specs": specs.len(), "gas_limit": "2^62"}),
        min_distinct: 50,
        exhaustive: true,
        explanation: "frame monitor asserts depth-after == depth-before for every attempt; probe must report 1023 regardless of the prefix".into(),
    };
    finish(ctx, acc, meta, &replay)
}
