//! C07 part two: E1 directly on `EvmContext::make_call_frame` / `make_create_frame` /
//! `make_eofcreate_frame` (the narrowest seam that opens and closes journal checkpoints), including the
//! EOF-only call schemes that legacy programs cannot issue.
use crate::explore::{self, Canon, Model};
use crate::fw::*;
use crate::macros::*;
use crate::world::*;
use revm::db::{CacheDB, EmptyDB};
use revm::interpreter::{CallInputs, CallScheme, CallValue, CreateInputs, EOFCreateInputs, EOFCreateKind, Gas, InstructionResult, InterpreterResult};
use revm::precompile::PrecompileSpecId;
use revm::primitives::{address, spec_to_generic, Address, Bytecode, Bytes, CreateScheme, Eof, SpecId, U256};
use revm::{ContextPrecompiles, EvmContext, FrameOrResult, JournalCheckpoint};
use serde::{Deserialize, Serialize};

pub const EOFC: Address = address!("b0000000000000000000000000000000000000e0");
const EOF_STOP: &str = "ef00010100040200010001040000000080000000";
// EOF init container: code section RETURNCONTRACT(0) of a sub-container that is EOF_STOP
fn eof_initcode() -> Eof {
    // header: types(4) code(1 section, len 4: PUSH0 PUSH0 RETURNCONTRACT 0) containers(1, len 20) data 0
    let sub = hex::decode(EOF_STOP).unwrap();
    let mut v = hex::decode("ef0001010004020001000403000100140400000000800002").unwrap();
    v.extend_from_slice(&[0x5f, 0x5f, 0xee, 0x00]);
    v.extend_from_slice(&sub);
    Eof::decode(Bytes::from(v)).expect("init container decodes")
}

#[derive(Clone, Debug, Serialize, Deserialize, PartialEq)]
pub enum Op {
    Call { scheme: u8, target: u8, value: u8 },
    Create { scheme: u8, value: u8, init: u8 },
    EofCreate { value: u8 },
    Return(u8),
}
fn scheme(i: u8) -> CallScheme {
    [CallScheme::Call, CallScheme::CallCode, CallScheme::DelegateCall, CallScheme::StaticCall, CallScheme::ExtCall, CallScheme::ExtStaticCall, CallScheme::ExtDelegateCall][i as usize]
}
fn target(i: u8) -> Address {
    [BOK, EMPTY, ID, EOFC, RICH, ECREC][i as usize]
}
fn result(i: u8) -> InstructionResult {
    [InstructionResult::Stop, InstructionResult::Return, InstructionResult::Revert, InstructionResult::OutOfGas, InstructionResult::ReturnContract][i as usize]
}

#[derive(Clone, Debug)]
enum Open {
    Call(JournalCheckpoint),
    Create(JournalCheckpoint, Address),
    EofCreate(JournalCheckpoint, Address),
}
pub struct S {
    ctx: EvmContext<CacheDB<EmptyDB>>,
    open: Vec<Open>,
    last: String,
}
pub struct M {
    pub spec: SpecId,
}
impl Model for M {
    type State = S;
    type Op = Op;
    fn name(&self) -> String {
        format!("frames/{:?}", self.spec)
    }
    fn inits(&self) -> Vec<Vec<Op>> {
        vec![vec![]]
    }
    fn fresh(&self) -> S {
        let mut w = std_world();
        w.insert(A, PlainAcc::contract(&[0x00]).with_balance(U256::from(10)));
        for init in [vec![0x00u8], hex::decode(EOF_STOP).unwrap()] {
            w.insert(create2_addr(A, 9, &init), PlainAcc { balance: U256::MAX, ..Default::default() });
        }
        let mut db = to_cachedb(&w);
        db.insert_account_info(EOFC, revm::primitives::AccountInfo::from_bytecode(Bytecode::new_raw(Bytes::from(hex::decode(EOF_STOP).unwrap()))));
        let mut ctx = EvmContext::new(db);
        ctx.journaled_state.set_spec_id(self.spec);
        ctx.set_precompiles(ContextPrecompiles::new(PrecompileSpecId::from_spec_id(self.spec)));
        ctx.load_account(A).unwrap();
        S { ctx, open: vec![], last: String::new() }
    }
    fn enabled(&self, s: &S) -> Vec<Op> {
        let mut v = vec![];
        if s.open.len() < 3 {
            let nsch = if self.spec.is_enabled_in(SpecId::OSAKA) { 7 } else { 4 };
            for sc in 0..nsch {
                for t in 0..6u8 {
                    for val in 0..3u8 {
                        let has_value = matches!(scheme(sc), CallScheme::Call | CallScheme::CallCode | CallScheme::ExtCall);
                        if val > 0 && !has_value {
                            continue;
                        }
                        v.push(Op::Call { scheme: sc, target: t, value: val });
                    }
                }
            }
            for sc in 0..3u8 {
                for val in 0..3u8 {
                    for init in 0..2u8 {
                        v.push(Op::Create { scheme: sc, value: val, init });
                    }
                }
            }
            if self.spec.is_enabled_in(SpecId::OSAKA) {
                // values 3..=5: the same endowments onto an address that already holds 2^256-1
                for val in 0..6u8 {
                    v.push(Op::EofCreate { value: val });
                }
            }
        }
        if !s.open.is_empty() {
            for r in 0..5u8 {
                v.push(Op::Return(r));
            }
        }
        v
    }
    fn apply(&self, s: &mut S, op: &Op) -> Result<(), (String, String)> {
        let val = |i: u8| [U256::ZERO, U256::from(1), U256::from(1000)][i as usize];
        let before = s.ctx.journaled_state.depth();
        let expect;
        match op {
            Op::Call { scheme: sc, target: t, value } => {
                let sch = scheme(*sc);
                let inputs = CallInputs {
                    input: Bytes::new(),
                    return_memory_offset: 0..0,
                    gas_limit: 100_000,
                    bytecode_address: target(*t),
                    target_address: if matches!(sch, CallScheme::CallCode | CallScheme::DelegateCall | CallScheme::ExtDelegateCall) { A } else { target(*t) },
                    caller: A,
                    value: if matches!(sch, CallScheme::DelegateCall | CallScheme::ExtDelegateCall) { CallValue::Apparent(U256::ZERO) } else { CallValue::Transfer(val(*value)) },
                    scheme: sch,
                    is_static: matches!(sch, CallScheme::StaticCall | CallScheme::ExtStaticCall),
                    is_eof: sch.is_ext(),
                };
                match s.ctx.make_call_frame(&inputs).map_err(|e| ("db-error".to_string(), format!("{e:?}")))? {
                    FrameOrResult::Frame(f) => {
                        let cp = match f {
                            revm::Frame::Call(c) => c.frame_data.checkpoint,
                            _ => unreachable!(),
                        };
                        s.open.push(Open::Call(cp));
                        s.last = "frame".into();
                        expect = before + 1;
                    }
                    FrameOrResult::Result(r) => {
                        s.last = format!("{:?}", r.interpreter_result().result);
                        expect = before;
                    }
                }
            }
            Op::Create { scheme: sc, value, init } => {
                let inputs = CreateInputs {
                    caller: A,
                    // scheme 2: CREATE2 onto an address that already holds 2^256-1 (endowment overflow)
                    scheme: match *sc {
                        0 => CreateScheme::Create,
                        1 => CreateScheme::Create2 { salt: U256::from(7) },
                        _ => CreateScheme::Create2 { salt: U256::from(9) },
                    },
                    value: val(*value),
                    init_code: if *init == 0 { Bytes::from_static(&[0x00]) } else { Bytes::from(hex::decode(EOF_STOP).unwrap()) },
                    gas_limit: 100_000,
                };
                match s.ctx.make_create_frame(self.spec, &inputs).map_err(|e| ("db-error".to_string(), format!("{e:?}")))? {
                    FrameOrResult::Frame(f) => {
                        let (cp, a) = match f {
                            revm::Frame::Create(c) => (c.frame_data.checkpoint, c.created_address),
                            _ => unreachable!(),
                        };
                        s.open.push(Open::Create(cp, a));
                        s.last = "frame".into();
                        expect = before + 1;
                    }
                    FrameOrResult::Result(r) => {
                        s.last = format!("{:?}", r.interpreter_result().result);
                        expect = before;
                    }
                }
            }
            Op::EofCreate { value } => {
                let inputs = EOFCreateInputs {
                    caller: A,
                    value: val(*value % 3),
                    gas_limit: 100_000,
                    kind: EOFCreateKind::Opcode { initcode: eof_initcode(), input: Bytes::new(), created_address: if *value >= 3 { RICH } else { address!("00000000000000000000000000000000000e0fc1") } },
                };
                match s.ctx.make_eofcreate_frame(self.spec, &inputs).map_err(|e| ("db-error".to_string(), format!("{e:?}")))? {
                    FrameOrResult::Frame(f) => {
                        let (cp, a) = match f {
                            revm::Frame::EOFCreate(c) => (c.frame_data.checkpoint, c.created_address),
                            _ => unreachable!(),
                        };
                        s.open.push(Open::EofCreate(cp, a));
                        s.last = "frame".into();
                        expect = before + 1;
                    }
                    FrameOrResult::Result(r) => {
                        s.last = format!("{:?}", r.interpreter_result().result);
                        expect = before;
                    }
                }
            }
            Op::Return(r) => {
                let mut res = InterpreterResult { result: result(*r), output: if result(*r) == InstructionResult::ReturnContract { Bytes::from(hex::decode(EOF_STOP).unwrap()) } else { Bytes::new() }, gas: Gas::new(50_000) };
                match s.open.pop().unwrap() {
                    Open::Call(cp) => s.ctx.call_return(&res, cp),
                    Open::Create(cp, a) => spec_to_generic!(self.spec, s.ctx.create_return::<SPEC>(&mut res, a, cp)),
                    Open::EofCreate(cp, a) => spec_to_generic!(self.spec, s.ctx.eofcreate_return::<SPEC>(&mut res, a, cp)),
                }
                s.last = format!("closed:{:?}", res.result);
                expect = before - 1;
            }
        }
        let d = s.ctx.journaled_state.depth();
        if d != expect || d != s.open.len() as u64 {
            return Err((
                format!("frame-depth-leak:{}", s.last),
                format!("journal depth is {d} with {} open frames (was {before}) after {op:?} -> {}", s.open.len(), s.last),
            ));
        }
        Ok(())
    }
    fn canon(&self, s: &S, c: &mut Canon) {
        c.add(&s.ctx.journaled_state.depth);
        c.add(&s.open.len());
        let mut accs: Vec<_> = s.ctx.journaled_state.state.iter().map(|(a, acc)| (*a, acc.info.balance, acc.info.nonce, acc.info.code_hash, acc.status)).collect();
        accs.sort();
        c.add(&accs);
        for o in &s.open {
            c.add(&match o {
                Open::Call(_) => 0u8,
                Open::Create(..) => 1,
                Open::EofCreate(..) => 2,
            });
        }
    }
    fn outcome(&self, s: &S, _op: &Op) -> String {
        s.last.clone()
    }
}

pub const SPECS: [SpecId; 3] = [SpecId::BYZANTIUM, SpecId::CANCUN, SpecId::OSAKA];
pub fn replay(case: &serde_json::Value) -> Vec<Violation> {
    let name = case["model"].as_str().unwrap_or("");
    for sp in SPECS {
        let m = M { spec: sp };
        if m.name() == name {
            return explore::replay_value(&m, case);
        }
    }
    vec![]
}
pub fn run_b(ctx: &Ctx) -> Acc {
    let mut acc = Acc::new();
    for sp in SPECS {
        acc.merge(explore::explore(&M { spec: sp }, ctx.tier.pick(3, 4), ctx));
    }
    acc
}
