//! C08: ether is conserved by every transaction — E2 + frame monitor.
use crate::fw::*;
use crate::gen::*;
use crate::props::txinv::*;
use revm::primitives::SpecId;
use serde_json::{json, Value};

pub fn replay(case: &Value) -> Vec<Violation> {
    replay_with(case, &check_conservation)
}
pub fn run(ctx: &Ctx) -> i32 {
    let alpha = general_alphabet();
    let deep: Vec<(SpecId, usize)> = match ctx.tier {
        Tier::Quick => vec![(SpecId::CANCUN, 3)],
        Tier::Thorough => crate::world::MAINNET_SPECS.iter().map(|s| (*s, 3)).collect(),
    };
    let acc = sweep(ctx, &alpha, 2, &deep, &check_conservation);
    let meta = Meta {
        rule: "every macro program of depth <= 2 on every spec and <= 3 on one spec (quick) / all specs (thorough) over a 69-macro alphabet x 15 transaction variants x 19 mainnet specs, executed with Evm::transact; distinct = distinct (spec, class, reason, gas used, refund, log count)".into(),
        assumptions: vec![
            "burned ether = base fee x gas used + blob fee + what accounts deleted by SELFDESTRUCT held (self-targeted burns in committed frames, read by the step monitor, plus their final balance) + the tip when rewards are disabled".into(),
            "post-state total is computed after an independent commit rule (touched only, destroyed => deleted, EIP-161)".into(),
        ],
        bounds: json!({"depth": "2 on every spec; 3 on one spec (quick) / on all 19 specs (thorough)", "thorough_depth_on": "FRONTIER,BYZANTIUM,LONDON,CANCUN,PRAGUE: 3", "macros": alpha.len(), "tx_variants": 15}),
        min_distinct: 300,
        exhaustive: true,
        explanation: "BigUint sums over the whole world before and after".into(),
    };
    finish(ctx, acc, meta, &replay)
}
