//! C31: reusing an EVM instance is equivalent to using a fresh one — E1 on a real Evm.
//!
//! Two databases of the same kind are driven in lock-step with the same operation history: one
//! lives inside ONE long-lived `Evm` (the reused instance), the other is moved into a freshly built
//! `Evm` for every single operation and taken out again afterwards. After every operation the
//! results (`ResultAndState` or error) and a projection of both databases must be equal.
use crate::asm::{op, Asm};
use crate::exec::*;
use crate::explore::{self, Canon, Model};
use crate::fw::*;
use crate::macros::*;
use crate::testdb::TestDb;
use crate::world::*;
use revm::db::{CacheDB, State};
use revm::primitives::{address, AccountInfo, Address, Bytecode, Bytes, SpecId, B256, U256};
use revm::{Database, DatabaseCommit, DatabaseRef, Evm};
use serde::{Deserialize, Serialize};
use serde_json::{json, Value};

// ---------------------------------------------------------------------------------------------
/// Underlying database with an injectable read fault (deviation from the default environment answer).
#[derive(Clone, Debug)]
pub struct FaultDb {
    pub inner: TestDb,
    pub reads: std::cell::Cell<u64>,
    pub fail_at: Option<u64>,
}
impl FaultDb {
    pub fn new(w: &Plain) -> Self {
        FaultDb { inner: TestDb::new(w), reads: Default::default(), fail_at: None }
    }
    fn tick(&self) -> Result<(), String> {
        let n = self.reads.get();
        self.reads.set(n + 1);
        if self.fail_at == Some(n) {
            return Err(format!("injected fault at read {n}"));
        }
        Ok(())
    }
}
impl DatabaseRef for FaultDb {
    type Error = String;
    fn basic_ref(&self, a: Address) -> Result<Option<AccountInfo>, String> {
        self.tick()?;
        Ok(self.inner.basic_ref(a).unwrap())
    }
    fn code_by_hash_ref(&self, h: B256) -> Result<Bytecode, String> {
        self.tick()?;
        Ok(self.inner.code_by_hash_ref(h).unwrap())
    }
    fn has_storage_ref(&self, a: Address) -> Result<bool, String> {
        self.tick()?;
        Ok(self.inner.has_storage_ref(a).unwrap())
    }
    fn storage_ref(&self, a: Address, i: U256) -> Result<U256, String> {
        self.tick()?;
        Ok(self.inner.storage_ref(a, i).unwrap())
    }
    fn block_hash_ref(&self, n: u64) -> Result<B256, String> {
        self.tick()?;
        Ok(self.inner.block_hash_ref(n).unwrap())
    }
}
impl Database for FaultDb {
    type Error = String;
    fn basic(&mut self, a: Address) -> Result<Option<AccountInfo>, String> {
        self.basic_ref(a)
    }
    fn code_by_hash(&mut self, h: B256) -> Result<Bytecode, String> {
        self.code_by_hash_ref(h)
    }
    fn has_storage(&mut self, a: Address) -> Result<bool, String> {
        self.has_storage_ref(a)
    }
    fn storage(&mut self, a: Address, i: U256) -> Result<U256, String> {
        self.storage_ref(a, i)
    }
    fn block_hash(&mut self, n: u64) -> Result<B256, String> {
        self.block_hash_ref(n)
    }
}

pub trait Layer: Database<Error = String> + DatabaseCommit + Sized + Send + 'static {
    const NAME: &'static str;
    fn make(w: &Plain) -> Self;
    fn fault(&mut self) -> &mut FaultDb;
    /// deterministic projection of everything the layer holds
    fn proj(&self) -> String;
}
fn sorted<K: Ord + Copy, V>(m: impl IntoIterator<Item = (K, V)>) -> Vec<(K, V)> {
    let mut v: Vec<(K, V)> = m.into_iter().collect();
    v.sort_by_key(|x| x.0);
    v
}
fn info_s(i: &AccountInfo) -> String {
    format!("b={} n={} h={}", i.balance, i.nonce, i.code_hash)
}
impl Layer for CacheDB<FaultDb> {
    const NAME: &'static str = "CacheDB";
    fn make(w: &Plain) -> Self {
        CacheDB::new(FaultDb::new(w))
    }
    fn fault(&mut self) -> &mut FaultDb {
        &mut self.db
    }
    fn proj(&self) -> String {
        let mut s = String::new();
        for (a, acc) in sorted(self.accounts.iter().map(|(a, b)| (*a, b))) {
            s += &format!("{a}:{} {:?} {:?};", info_s(&acc.info), acc.account_state, sorted(acc.storage.iter().map(|(k, v)| (*k, *v))));
        }
        s += &format!("|contracts {:?}|logs {}|bh {:?}", sorted(self.contracts.keys().map(|k| (*k, ()))), self.logs.len(), sorted(self.block_hashes.iter().map(|(k, v)| (*k, *v))));
        s
    }
}
impl Layer for State<FaultDb> {
    const NAME: &'static str = "State";
    fn make(w: &Plain) -> Self {
        State::builder().with_database(FaultDb::new(w)).with_bundle_update().build()
    }
    fn fault(&mut self) -> &mut FaultDb {
        &mut self.database
    }
    fn proj(&self) -> String {
        let mut s = String::new();
        for (a, acc) in sorted(self.cache.accounts.iter().map(|(a, b)| (*a, b))) {
            s += &format!("{a}:{:?} ", acc.status);
            if let Some(p) = &acc.account {
                s += &format!("{} {:?}", info_s(&p.info), sorted(p.storage.iter().map(|(k, v)| (*k, *v))));
            }
            s += ";";
        }
        s += &format!("|contracts {:?}", sorted(self.cache.contracts.keys().map(|k| (*k, ()))));
        if let Some(t) = &self.transition_state {
            for (a, acc) in sorted(t.transitions.iter().map(|(a, b)| (*a, b))) {
                s += &format!(
                    "|T {a}:{:?}<-{:?} {:?}<-{:?} wiped={} {:?}",
                    acc.status,
                    acc.previous_status,
                    acc.info.as_ref().map(info_s),
                    acc.previous_info.as_ref().map(info_s),
                    acc.storage_was_destroyed,
                    sorted(acc.storage.iter().map(|(k, v)| (*k, (v.previous_or_original_value, v.present_value))))
                );
            }
        }
        s += &format!("|bh {:?}", self.block_hashes);
        s
    }
}

// ---------------------------------------------------------------------------------------------
pub const ANEW: Address = address!("a0000000000000000000000000000000000000b1");
pub const ANEW_REV: Address = address!("a0000000000000000000000000000000000000b2");
pub const AOLD: Address = address!("a0000000000000000000000000000000000000b3");
pub const AOLD_HALT: Address = address!("a0000000000000000000000000000000000000b4");
pub const APRE: Address = address!("a0000000000000000000000000000000000000b5");
pub const POOR: Address = address!("1000000000000000000000000000000000000002");

/// SLOAD(1), counter in slot 3, BALANCE(BOK), LOG1, CALL(COINBASE): every access is cold in a fresh
/// transaction, so leaked warm status shows as a gas difference, leaked logs as extra logs.
fn old_prefix() -> Asm {
    let a = Asm::new().push_u(1).op(op::SLOAD).op(op::POP);
    let a = a.push_u(1).push_u(3).op(op::SLOAD).op(op::ADD).push_u(3).op(op::SSTORE);
    let a = a.push_addr(BOK).op(op::BALANCE).op(op::POP);
    let a = Mac::Log(1).emit(a);
    a.call(op::CALL, U256::from(30_000), COINBASE, Some(U256::ZERO), 0, 0, 0, 0).op(op::POP)
}
/// additionally SSTORE(2, TLOAD(0)+7) and TSTORE(0, 1): leaked transient storage changes slot 2
fn new_prefix() -> Asm {
    let a = old_prefix();
    a.push_u(7).push_u(0).op(op::TLOAD).op(op::ADD).push_u(2).op(op::SSTORE).push_u(1).push_u(0).op(op::TSTORE)
}
fn ret_gas(a: Asm) -> Vec<u8> {
    a.op(op::GAS).ret_top().build()
}
/// probes precompile addresses 5, 9, 10, 11 with STATICCALL (CALL before Byzantium is not needed: the
/// menu's oldest spec with STATICCALL is used for this contract; earlier it halts, which is also data)
fn pre_code() -> Vec<u8> {
    let mut a = Asm::new();
    for (i, p) in [5u8, 9, 0x0a, 0x0b].iter().enumerate() {
        a = a.call(op::STATICCALL, U256::from(60_000), Address::with_last_byte(*p), None, 0, 96, 0, 32);
        a = a.op(op::RETURNDATASIZE).push_u(2).op(op::MUL).op(op::ADD).push_u(10 + i as u64).op(op::SSTORE);
    }
    a.op(op::STOP).build()
}
fn world() -> Plain {
    let mut w = std_world();
    w.insert(POOR, PlainAcc::eoa(1000));
    w.insert(ANEW, PlainAcc::contract(&ret_gas(new_prefix())).with_storage(1, 5).with_balance(U256::from(10)));
    w.insert(ANEW_REV, PlainAcc::contract(&new_prefix().push_u(0).push_u(0).op(op::REVERT).build()).with_storage(1, 5));
    w.insert(AOLD, PlainAcc::contract(&ret_gas(old_prefix())).with_storage(1, 5));
    w.insert(AOLD_HALT, PlainAcc::contract(&old_prefix().op(op::INVALID).build()).with_storage(1, 5));
    w.insert(APRE, PlainAcc::contract(&pre_code()));
    w.insert(AUTH, PlainAcc::eoa(100));
    w
}
pub const N_TX: usize = 15;
fn tx_name(i: usize) -> &'static str {
    ["new-ok", "new-revert", "old-ok", "old-halt", "bad-nonce", "no-funds", "create", "access-list", "set-code", "precompile-probe", "selfdestruct", "to-precompile", "blob", "value-to-empty", "other-coinbase"][i]
}
/// environment of transaction `i` under `spec`
fn case_for(spec: SpecId, i: usize) -> TxCase {
    let mut c = TxCase::new(spec, Plain::new());
    c.tx.gas_limit = 400_000;
    c.tx.gas_price = U256::from(10);
    if spec.is_enabled_in(SpecId::LONDON) {
        c.block.basefee = U256::from(7);
    }
    match i {
        0 => c.tx.to = Some(ANEW),
        1 => c.tx.to = Some(ANEW_REV),
        2 => c.tx.to = Some(AOLD),
        3 => c.tx.to = Some(AOLD_HALT),
        4 => {
            c.tx.to = Some(AOLD);
            c.tx.nonce = Some(9999);
        }
        5 => {
            c.tx.to = Some(AOLD);
            c.tx.caller = POOR;
        }
        6 => {
            c.tx.to = None;
            c.tx.data = Bytes::from(Init::Write.code());
            c.tx.value = U256::from(3);
        }
        7 => {
            c.tx.to = Some(ANEW);
            c.tx.access_list = vec![(BOK, vec![]), (ANEW, vec![U256::from(1), U256::from(2)])];
        }
        8 => {
            c.tx.to = Some(AUTH);
            c.tx.auth_list = Some(vec![AuthSpec { chain_id: 1, address: AOLD, nonce: 0, authority: Some(AUTH) }]);
        }
        9 => c.tx.to = Some(APRE),
        10 => c.tx.to = Some(BSD),
        11 => {
            c.tx.to = Some(Address::with_last_byte(0x0b));
            c.tx.value = U256::from(1);
        }
        12 => {
            c.tx.to = Some(ANEW);
            c.tx.blob_hashes = vec![crate::gen::BLOB_HASH];
            c.tx.max_fee_per_blob_gas = Some(U256::from(1000));
            c.block.excess_blob_gas = 10_000_000;
        }
        13 => {
            c.tx.to = Some(EMPTY);
            c.tx.value = U256::from(1);
        }
        14 => {
            // the block's coinbase is BOK, an address later transactions read with BALANCE
            c.tx.to = Some(AOLD);
            c.block.coinbase = BOK;
        }
        _ => unreachable!(),
    }
    c
}

#[derive(Clone, Copy, Debug, Serialize, Deserialize, PartialEq)]
pub enum Mode {
    /// transact(), result discarded
    Transact,
    /// transact_commit()
    Commit,
    /// preverify_transaction() only
    Preverify,
    /// preverify_transaction(), then transact_preverified(), result committed
    PreverifiedCommit,
}
#[derive(Clone, Debug, Serialize, Deserialize, PartialEq)]
pub enum Op {
    Tx { tx: u8, mode: Mode },
    /// transact_commit() with the k-th read of the wrapped database failing
    Fault { tx: u8, k: u8 },
    /// Evm::modify_spec_id
    Spec(u8),
    /// evm.modify().with_spec_id(..).build()
    SpecBuilder(u8),
}
const SPECS: [SpecId; 4] = [SpecId::HOMESTEAD, SpecId::ISTANBUL, SpecId::CANCUN, SpecId::PRAGUE];
const START: usize = 2;

pub struct S<L: Layer> {
    reused: Option<Evm<'static, (), L>>,
    shadow: Option<L>,
    spec: SpecId,
    hist: Vec<String>,
    last: String,
}
#[derive(Clone, Copy, Debug, PartialEq)]
pub enum Alpha {
    Full,
    Medium,
    Reduced,
}
pub struct M<L: Layer> {
    pub alpha: Alpha,
    pub _p: std::marker::PhantomData<fn() -> L>,
}

fn res_s<T: std::fmt::Debug>(r: &Result<T, revm::primitives::EVMError<String>>) -> String {
    match r {
        Ok(_) => "ok".into(),
        Err(e) => format!("{e:?}").chars().take(60).collect(),
    }
}

impl<L: Layer> Model for M<L> {
    type State = S<L>;
    type Op = Op;
    fn name(&self) -> String {
        format!("reuse/{}/{:?}", L::NAME, self.alpha)
    }
    fn inits(&self) -> Vec<Vec<Op>> {
        // start from CANCUN and from PRAGUE (so that "newer spec, then older spec" fits in the depth bound)
        vec![vec![], vec![Op::Spec(3)]]
    }
    fn fresh(&self) -> S<L> {
        let w = world();
        let spec = SPECS[START];
        let c = case_for(spec, 0);
        let evm = Evm::builder().with_db(L::make(&w)).with_env(c.env()).with_spec_id(spec).build();
        S { reused: Some(evm), shadow: Some(L::make(&w)), spec, hist: vec![], last: String::new() }
    }
    fn enabled(&self, _s: &S<L>) -> Vec<Op> {
        let mut v = vec![];
        let all = [Mode::Transact, Mode::Commit, Mode::Preverify, Mode::PreverifiedCommit];
        match self.alpha {
            Alpha::Full => {
                for tx in 0..N_TX as u8 {
                    for mode in all {
                        v.push(Op::Tx { tx, mode });
                    }
                }
                for i in 0..SPECS.len() as u8 {
                    v.push(Op::Spec(i));
                    v.push(Op::SpecBuilder(i));
                }
                for tx in [0u8, 2, 6, 9] {
                    for k in 0..8 {
                        v.push(Op::Fault { tx, k });
                    }
                }
            }
            Alpha::Medium => {
                for tx in 0..N_TX as u8 {
                    for mode in [Mode::Transact, Mode::Commit] {
                        v.push(Op::Tx { tx, mode });
                    }
                }
                for tx in [0u8, 2, 4, 5, 6, 8] {
                    for mode in [Mode::Preverify, Mode::PreverifiedCommit] {
                        v.push(Op::Tx { tx, mode });
                    }
                }
                for i in 0..SPECS.len() as u8 {
                    v.push(Op::Spec(i));
                    v.push(Op::SpecBuilder(i));
                }
                for tx in [0u8, 2, 6, 9] {
                    for k in 0..2 {
                        v.push(Op::Fault { tx, k });
                    }
                }
            }
            Alpha::Reduced => {
                for tx in [0u8, 1, 3, 4, 6, 7, 9, 10] {
                    for mode in [Mode::Transact, Mode::Commit] {
                        v.push(Op::Tx { tx, mode });
                    }
                }
                for tx in [0u8, 4, 5] {
                    for mode in [Mode::Preverify, Mode::PreverifiedCommit] {
                        v.push(Op::Tx { tx, mode });
                    }
                }
                for i in 0..SPECS.len() as u8 {
                    v.push(Op::Spec(i));
                }
                v.extend([Op::SpecBuilder(1), Op::SpecBuilder(3)]);
                v.extend([Op::Fault { tx: 0, k: 0 }, Op::Fault { tx: 0, k: 1 }, Op::Fault { tx: 0, k: 2 }, Op::Fault { tx: 9, k: 1 }]);
            }
        }
        v
    }
    fn apply(&self, s: &mut S<L>, op: &Op) -> Result<(), (String, String)> {
        s.hist.push(format!("{op:?}"));
        match op {
            Op::Spec(i) => {
                s.spec = SPECS[*i as usize];
                s.reused.as_mut().unwrap().modify_spec_id(s.spec);
                s.last = "spec".into();
                return Ok(());
            }
            Op::SpecBuilder(i) => {
                s.spec = SPECS[*i as usize];
                let e = s.reused.take().unwrap();
                s.reused = Some(e.modify().with_spec_id(s.spec).build());
                s.last = "spec-builder".into();
                return Ok(());
            }
            _ => {}
        }
        let (tx, mode, fault) = match op {
            Op::Tx { tx, mode } => (*tx as usize, *mode, None),
            Op::Fault { tx, k } => (*tx as usize, Mode::Commit, Some(*k as u64)),
            _ => unreachable!(),
        };
        let case = case_for(s.spec, tx);
        // reused instance
        let reused = s.reused.as_mut().unwrap();
        reused.context.evm.inner.env = case.env();
        // fresh instance over the shadow database
        let mut fresh: Evm<'static, (), L> = Evm::builder().with_db(s.shadow.take().unwrap()).with_env(case.env()).with_spec_id(s.spec).build();
        for e in [&mut *reused, &mut fresh] {
            let f = e.context.evm.inner.db.fault();
            f.reads.set(0);
            f.fail_at = fault;
        }
        let run = |e: &mut Evm<'static, (), L>| -> (String, String) {
            // returns (short outcome, full comparable rendering)
            match mode {
                Mode::Transact => {
                    let r = e.transact();
                    (res_s(&r), render(&r))
                }
                Mode::Commit => {
                    let r = e.transact();
                    let out = (res_s(&r), render(&r));
                    if let Ok(rs) = r {
                        e.context.evm.inner.db.commit(rs.state);
                    }
                    out
                }
                Mode::Preverify => {
                    let r = e.preverify_transaction();
                    (res_s(&r), format!("{r:?}"))
                }
                Mode::PreverifiedCommit => {
                    let p = e.preverify_transaction();
                    if p.is_err() {
                        return (res_s(&p), format!("{p:?}"));
                    }
                    let r = e.transact_preverified();
                    let out = (res_s(&r), render(&r));
                    if let Ok(rs) = r {
                        e.context.evm.inner.db.commit(rs.state);
                    }
                    out
                }
            }
        };
        let (short_r, full_r) = run(reused);
        let (_short_f, full_f) = run(&mut fresh);
        for e in [&mut *reused, &mut fresh] {
            e.context.evm.inner.db.fault().fail_at = None;
        }
        let shadow = fresh.into_context().evm.inner.db;
        let pr = reused.context.evm.inner.db.proj();
        let pf = shadow.proj();
        s.shadow = Some(shadow);
        s.last = format!("{}:{}:{:?}:{}", tx_name(tx), if fault.is_some() { "fault".into() } else { format!("{mode:?}") }, s.spec, short_r);
        let kind = match op {
            Op::Fault { .. } => "after-fault",
            _ => "tx",
        };
        if full_r != full_f {
            return Err((format!("result-differs:{kind}:{}", tx_name(tx)), format!("spec {:?}, transaction {} ({mode:?}): reused instance vs fresh instance differ {}", s.spec, tx_name(tx), first_diff(&full_r, &full_f))));
        }
        if pr != pf {
            return Err((format!("database-differs:{kind}:{}", tx_name(tx)), format!("spec {:?}, transaction {} ({mode:?}): database behind the reused instance vs behind fresh instances differ {}", s.spec, tx_name(tx), first_diff(&pr, &pf))));
        }
        Ok(())
    }
    fn canon(&self, s: &S<L>, c: &mut Canon) {
        // the reused Evm's leftover context is exactly what is under test: no two histories are merged
        c.add(&s.hist);
    }
    fn outcome(&self, s: &S<L>, _op: &Op) -> String {
        s.last.clone()
    }
}
fn clip(s: &str) -> String {
    if s.len() > 900 {
        format!("{}…", &s[..900])
    } else {
        s.to_string()
    }
}
/// deterministic rendering of a transaction result (state sorted by address and slot)
fn render(r: &Result<revm::primitives::ResultAndState, revm::primitives::EVMError<String>>) -> String {
    match r {
        Err(e) => format!("Err({e:?})"),
        Ok(rs) => {
            let mut s = format!("{:?}|", rs.result);
            for (a, acc) in sorted(rs.state.iter().map(|(a, b)| (*a, b))) {
                s += &format!("{a}:{} {:?} {:?};", info_s(&acc.info), acc.status, sorted(acc.storage.iter().map(|(k, v)| (*k, (v.original_value, v.present_value, v.is_cold)))));
            }
            s
        }
    }
}

fn model<L: Layer>(alpha: Alpha) -> M<L> {
    M { alpha, _p: Default::default() }
}
pub fn replay(case: &Value) -> Vec<Violation> {
    let name = case["model"].as_str().unwrap_or("");
    if name.starts_with("reuse/CacheDB") {
        explore::replay_value(&model::<CacheDB<FaultDb>>(Alpha::Full), case)
    } else {
        explore::replay_value(&model::<State<FaultDb>>(Alpha::Full), case)
    }
}
pub fn run(ctx: &Ctx) -> i32 {
    // (alphabet, depth) pairs explored on both layers
    let plan: Vec<(Alpha, usize)> = match ctx.tier {
        Tier::Quick => vec![(Alpha::Medium, 3)],
        Tier::Thorough => vec![(Alpha::Full, 3), (Alpha::Reduced, 4)],
    };
    let mut acc = Acc::new();
    for (alpha, depth) in &plan {
        acc.merge(explore::explore(&model::<CacheDB<FaultDb>>(*alpha), *depth, ctx));
        acc.merge(explore::explore(&model::<State<FaultDb>>(*alpha), *depth, ctx));
    }
    let meta = Meta {
        rule: format!("every history over the (alphabet, depth) pairs {plan:?} of {{15 transactions x (transact | transact_commit | preverify_transaction | preverify_transaction + transact_preverified), modify_spec_id / builder with_spec_id over 4 specs, transact_commit with the k-th database read failing}} on ONE Evm, each operation mirrored on a freshly built Evm over a twin database; alphabets: Full = 15x4 transactions + 8 spec changes + 4x8 faults, Medium = 15x2 + 6x2 + 8 + 4x2, Reduced = 8x2 + 3x2 + 6 + 4; no two histories are merged; distinct = distinct (canonical history, outcome)"),
        assumptions: vec![
            "the twin database sees the same reads and commits, but only through Evm instances built for one operation".into(),
            "transaction menu: transient storage + cold accesses + log (ok / revert / halt endings), invalid nonce, insufficient funds, create, access list, EIP-7702, precompile probe (5, 9, 10, 11), self-destruct, value to a precompile address, blob, value to an empty account".into(),
        ],
        bounds: json!({"plan": format!("{plan:?}"), "specs": SPECS.iter().map(|s| format!("{s:?}")).collect::<Vec<_>>(), "transactions": N_TX, "layers": ["CacheDB", "State(with_bundle_update)"]}),
        min_distinct: 100,
        exhaustive: true,
        explanation: "results and database projections of the reused and the per-operation fresh instance are equal after every operation".into(),
    };
    finish(ctx, acc, meta, &replay)
}
