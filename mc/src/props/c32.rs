//! C32: blob fee functions match the EIP-4844 integer definitions — E3.
use crate::fw::*;
use crate::lattice::*;
use num_bigint::BigUint;
use num_traits::{One, ToPrimitive, Zero};
use rayon::prelude::*;
use revm::primitives::{calc_blob_gasprice, calc_excess_blob_gas, fake_exponential};
use serde_json::{json, Value};

/// EIP-4844 fake_exponential with unbounded integers. None = the value exceeds 2^130 (certainly > 128 bits).
pub fn ref_fake_exp(factor: u64, numerator: u64, denominator: u64) -> Option<BigUint> {
    let f = BigUint::from(factor);
    let n = BigUint::from(numerator);
    let d = BigUint::from(denominator);
    let cap = (BigUint::one() << 130) * &d;
    let mut i = BigUint::one();
    let mut output = BigUint::zero();
    let mut accum = &f * &d;
    while !accum.is_zero() {
        output += &accum;
        if output > cap {
            return None;
        }
        accum = (&accum * &n) / (&d * &i);
        i += BigUint::one();
    }
    Some(output / d)
}

fn check_fe(factor: u64, numerator: u64, denominator: u64, a: &mut Acc) {
    a.evaluations += 1;
    let exp = ref_fake_exp(factor, numerator, denominator);
    let exp128 = exp.as_ref().and_then(|e| e.to_u128());
    let case = json!({"fn":"fake_exponential","factor":factor,"numerator":numerator,"denominator":denominator});
    let c2 = case.clone();
    let _g = guard("fake_exponential", move || c2);
    let got = catch(|| fake_exponential(factor, numerator, denominator));
    drop(_g);
    a.distinct(&("fe", exp128));
    match (exp128, got) {
        (Some(e), Ok(g)) if g == e => a.outcome("fe-exact"),
        (Some(e), Ok(g)) => a.violation(Violation { key: "fake_exponential:wrong-value-that-fits".into(), msg: format!("fake_exponential({factor},{numerator},{denominator}) = {g}, EIP-4844 integer definition gives {e}"), case }),
        (Some(e), Err(p)) => a.violation(Violation { key: "fake_exponential:panic-on-value-that-fits".into(), msg: format!("fake_exponential({factor},{numerator},{denominator}) panicked ({p}) although the value {e} fits in 128 bits"), case }),
        (None, Ok(g)) if g == u128::MAX => a.outcome("fe-saturated"),
        (None, Ok(g)) => a.violation(Violation { key: "fake_exponential:silent-wrap".into(), msg: format!("fake_exponential({factor},{numerator},{denominator}) silently returned {g} although the true value exceeds 128 bits"), case }),
        (None, Err(_)) => a.outcome("fe-panic-on-overflow"),
    }
}
fn check_price(excess: u64, prague: bool, a: &mut Acc) {
    a.evaluations += 1;
    let frac = if prague { 5007716u64 } else { 3338477 };
    let exp = ref_fake_exp(1, excess, frac);
    let exp128 = exp.as_ref().and_then(|e| e.to_u128());
    let case = json!({"fn":"calc_blob_gasprice","excess":excess,"prague":prague});
    let c2 = case.clone();
    let _g = guard("calc_blob_gasprice", move || c2);
    let got = catch(|| calc_blob_gasprice(excess, prague));
    drop(_g);
    a.distinct(&("price", prague, exp128));
    match (exp128, got) {
        (Some(e), Ok(g)) if g == e => a.outcome("price-exact"),
        (Some(e), Ok(g)) => a.violation(Violation { key: "calc_blob_gasprice:wrong-value-that-fits".into(), msg: format!("calc_blob_gasprice({excess},{prague}) = {g}, definition gives {e}"), case }),
        (Some(e), Err(p)) => a.violation(Violation { key: "calc_blob_gasprice:panic-on-value-that-fits".into(), msg: format!("calc_blob_gasprice({excess},{prague}) panicked ({p}); value {e} fits"), case }),
        (None, Ok(g)) if g == u128::MAX => a.outcome("price-saturated"),
        (None, Ok(g)) => a.violation(Violation { key: "calc_blob_gasprice:silent-wrap".into(), msg: format!("calc_blob_gasprice({excess},{prague}) silently returned {g}; true value exceeds 128 bits"), case }),
        (None, Err(_)) => a.outcome("price-panic-on-overflow"),
    }
}
fn check_excess(e: u64, u: u64, t: u64, a: &mut Acc) {
    a.evaluations += 1;
    let s = e as u128 + u as u128;
    let exp = s.saturating_sub(t as u128);
    let got = catch(|| calc_excess_blob_gas(e, u, t));
    let case = json!({"fn":"calc_excess_blob_gas","excess":e,"used":u,"target":t});
    a.distinct(&("excess", exp.min(1 << 20), exp > u64::MAX as u128));
    match (u64::try_from(exp).ok(), got) {
        (Some(x), Ok(g)) if g == x => a.outcome("excess-exact"),
        (Some(x), Ok(g)) => a.violation(Violation { key: "calc_excess_blob_gas:wrong-value".into(), msg: format!("calc_excess_blob_gas({e},{u},{t}) = {g}, max(0, excess+used-target) = {x}"), case }),
        (Some(x), Err(p)) => a.violation(Violation { key: "calc_excess_blob_gas:panic".into(), msg: format!("calc_excess_blob_gas({e},{u},{t}) panicked ({p}); value {x} fits"), case }),
        (None, Ok(g)) if g == u64::MAX => a.outcome("excess-saturated"),
        (None, Ok(g)) => a.violation(Violation { key: "calc_excess_blob_gas:silent-wrap".into(), msg: format!("calc_excess_blob_gas({e},{u},{t}) silently returned {g}; true value {exp} exceeds 64 bits"), case }),
        (None, Err(_)) => a.outcome("excess-panic-on-overflow"),
    }
}

/// BlockEnv keeps (excess, price): every history of `set_blob_excess_gas_and_price` calls on one
/// BlockEnv must leave the pair that the last call's arguments define
fn env_menu() -> Vec<(u64, bool)> {
    let mut v = vec![];
    for e in [0u64, 1, 1 << 17, 2_314_057, 2_314_058, 10 << 20, 100_000_000, 161_087_488] {
        v.push((e, false));
        v.push((e, true));
    }
    v
}
fn check_env_history(h: &[(u64, bool)], a: &mut Acc) {
    a.evaluations += 1;
    let case = json!({"fn":"block_env_history","history": h});
    let r = catch(|| {
        let mut b = revm::primitives::BlockEnv::default();
        let mut out = vec![];
        for (e, p) in h {
            b.set_blob_excess_gas_and_price(*e, *p);
            out.push((b.get_blob_excess_gas(), b.get_blob_gasprice()));
        }
        out
    });
    match r {
        Err(p) => a.violation(Violation { key: "block_env:panic".into(), msg: format!("set_blob_excess_gas_and_price history {h:?} panicked: {p}"), case }),
        Ok(out) => {
            for (i, ((e, p), (ge, gp))) in h.iter().zip(out).enumerate() {
                let frac = if *p { 5007716u64 } else { 3338477 };
                let exp = ref_fake_exp(1, *e, frac).and_then(|x| x.to_u128());
                a.distinct(&("env", e, p, i));
                if ge != Some(*e) || (exp.is_some() && gp != exp) {
                    a.violation(Violation { key: "block_env:stale-or-wrong-price".into(), msg: format!("after call #{i} of {h:?}: BlockEnv reports excess {ge:?} price {gp:?}; set_blob_excess_gas_and_price({e},{p}) defines excess {e} price {exp:?}"), case });
                    return;
                }
            }
            a.outcome("env-history-exact");
        }
    }
}

pub fn replay(case: &Value) -> Vec<Violation> {
    let mut a = Acc::new();
    if case["fn"].as_str() == Some("block_env_history") {
        let h: Vec<(u64, bool)> = serde_json::from_value(case["history"].clone()).unwrap();
        check_env_history(&h, &mut a);
        return a.violations;
    }
    let u = |k: &str| case[k].as_u64().unwrap();
    match case["fn"].as_str().unwrap() {
        "fake_exponential" => check_fe(u("factor"), u("numerator"), u("denominator"), &mut a),
        "calc_blob_gasprice" => check_price(u("excess"), case["prague"].as_bool().unwrap(), &mut a),
        _ => check_excess(u("excess"), u("used"), u("target"), &mut a),
    }
    a.violations
}

pub fn run(ctx: &Ctx) -> i32 {
    let lat = u64s();
    let sub: Vec<u64> = ctx.tier.pick(lat.iter().cloned().step_by(3).collect(), lat.clone());
    let mut acc = Acc::new();
    // excess: cube of the lattice
    let accs: Vec<Acc> = sub
        .par_iter()
        .map(|e| {
            let mut a = Acc::new();
            for u in &sub {
                for t in &sub {
                    check_excess(*e, *u, *t, &mut a);
                }
            }
            a
        })
        .collect();
    acc.merge(merge_all(accs));
    // price: every multiple of GAS_PER_BLOB up to twice the 128-bit frontier, plus the lattice
    let mut ex: Vec<u64> = (0..=2 * 3400u64).map(|k| k << 17).collect();
    ex.extend((0..=2 * 3400u64).map(|k| (k << 17) + 1));
    ex.extend(lat.iter().cloned());
    let accs: Vec<Acc> = ex
        .par_chunks(64)
        .map(|ch| {
            let mut a = Acc::new();
            for e in ch {
                check_price(*e, false, &mut a);
                check_price(*e, true, &mut a);
            }
            a
        })
        .collect();
    acc.merge(merge_all(accs));
    // fake_exponential lattice
    let factors = [1u64, 2, 1 << 20, 1 << 32, u64::MAX];
    let denoms = [1u64, 2, 3, 3338477, 5007716, 1 << 32, u64::MAX];
    let mut fe = vec![];
    for f in factors {
        for d in denoms {
            for n in &lat {
                fe.push((f, *n, d));
            }
            // ratios around the 128-bit frontier for this denominator
            for r in [1u64, 10, 40, 44, 80, 88, 89, 100, 200] {
                if let Some(n) = d.checked_mul(r) {
                    fe.push((f, n, d));
                    fe.push((f, n + 1, d));
                }
            }
        }
    }
    let accs: Vec<Acc> = fe
        .par_chunks(32)
        .map(|ch| {
            let mut a = Acc::new();
            for (f, n, d) in ch {
                check_fe(*f, *n, *d, &mut a);
            }
            a
        })
        .collect();
    acc.merge(merge_all(accs));
    // BlockEnv histories: every sequence of <= 3 calls over the menu
    {
        let m = env_menu();
        let mut hs: Vec<Vec<(u64, bool)>> = vec![];
        for x in &m {
            hs.push(vec![*x]);
            for y in &m {
                hs.push(vec![*x, *y]);
                for z in &m {
                    hs.push(vec![*x, *y, *z]);
                }
            }
        }
        let accs: Vec<Acc> = hs
            .par_chunks(64)
            .map(|ch| {
                let mut a = Acc::new();
                for h in ch {
                    check_env_history(h, &mut a);
                }
                a
            })
            .collect();
        acc.bump("block_env_histories", hs.len() as u64);
        acc.merge(merge_all(accs));
    }
    acc.states = acc.evaluations;
    acc.transitions = acc.evaluations;
    acc.sample(|| json!({"fn":"calc_excess_blob_gas","excess":u64::MAX,"used":1,"target":1}));
    acc.sample(|| json!({"fn":"fake_exponential","factor":1,"numerator":300000000u64,"denominator":3338477}));
    let meta = Meta {
        rule: "calc_excess_blob_gas over the cube of the u64 lattice; calc_blob_gasprice for every multiple of 2^17 (and +1) up to twice the 128-bit frontier and the lattice, both update fractions; fake_exponential over a (factor, numerator, denominator) lattice; every history of <= 3 BlockEnv::set_blob_excess_gas_and_price calls over 8 excess values x both fractions on one BlockEnv (the stored excess and price must be the last call's); distinct = distinct expected values".into(),
        assumptions: vec![
            "a value that does not fit may be reported by a panic or by explicit saturation at the type's maximum; any other returned value is a silent wrap".into(),
            "reference loop is cut once the sum exceeds 2^130 (terms are non-negative, so the result certainly exceeds 128 bits)".into(),
        ],
        bounds: json!({"lattice": sub.len(), "price_points": ex.len(), "fake_exponential_cases": fe.len()}),
        min_distinct: 500,
        exhaustive: true,
        explanation: "reference = num-bigint transcription of the EIP-4844 pseudocode".into(),
    };
    finish(ctx, acc, meta, &replay)
}
