//! C21: contract creation collides with any address that already has storage — E2.
use crate::asm::{op, Asm};
use crate::exec::*;
use crate::fw::*;
use crate::macros::Init;
use crate::testdb::TestDb;
use crate::world::*;
use rayon::prelude::*;
use revm::db::{CacheDB, EmptyDB, State, WrapDatabaseRef};
use revm::primitives::{keccak256, Address, EVMError, ResultAndState, SpecId, U256};
use revm::{Database, Evm, Handler};
use serde::{Deserialize, Serialize};
use serde_json::{json, Value};

#[derive(Clone, Copy, Debug, PartialEq, Eq, Hash, Serialize, Deserialize)]
pub enum Kind {
    Create,
    Create2,
    CreateTx,
    /// EOFCREATE from an EOF contract (OSAKA)
    EofCreate,
    /// creation transaction carrying an EOF init container (OSAKA)
    EofCreateTx,
}
#[derive(Clone, Copy, Debug, PartialEq, Eq, Hash, Serialize, Deserialize)]
pub enum Layer {
    Direct,
    MutRef,
    Boxed,
    WrapRef,
    StateOver,
    StateBundleOver,
    CacheOver,
    CacheInserted,
}
pub const LAYERS: [Layer; 8] = [Layer::Direct, Layer::MutRef, Layer::Boxed, Layer::WrapRef, Layer::StateOver, Layer::StateBundleOver, Layer::CacheOver, Layer::CacheInserted];

#[derive(Clone, Debug, Serialize, Deserialize)]
pub struct Case21 {
    pub spec: String,
    pub kind: Kind,
    pub layer: Layer,
    pub code: bool,
    pub nonce: bool,
    pub storage: bool,
    pub balance: bool,
    /// the database has no account record for a target whose info is empty (storage only)
    #[serde(default)]
    pub ghost: bool,
    /// an earlier, committed transaction sends 1 wei to the target
    #[serde(default)]
    pub pretouch: bool,
    /// the target is already warm when the creation is processed: 1 = named in the access list (no
    /// keys), 2 = the creator reads its balance first
    #[serde(default)]
    pub warm: u8,
}

fn init_code() -> Vec<u8> {
    Init::Code1.code()
}
pub fn target_of(kind: Kind, pretouch: bool) -> Address {
    match kind {
        Kind::Create => A.create(1),
        Kind::Create2 => A.create2(U256::from(5).to_be_bytes::<32>(), keccak256(init_code())),
        Kind::CreateTx | Kind::EofCreateTx => SENDER.create(pretouch as u64),
        Kind::EofCreate => A.create2([0u8; 32], keccak256(crate::props::c26::sub_init())),
    }
}
fn creator_code(kind: Kind, prebalance: Option<Address>) -> Vec<u8> {
    let pre = match prebalance {
        Some(t) => Asm::new().push_addr(t).op(op::BALANCE).op(op::POP),
        None => Asm::new(),
    };
    let a = match kind {
        Kind::Create => pre.create(U256::ZERO, &init_code()),
        Kind::Create2 => pre.create2(U256::ZERO, &init_code(), 5),
        Kind::CreateTx | Kind::EofCreateTx => return vec![op::STOP],
        Kind::EofCreate => {
            // EOFCREATE(value 0, salt 0, no input) of the init container; the result goes to slot 0
            // (GAS does not exist in EOF code: the gas consumed is read from the transaction result)
            let mut body = vec![];
            if let Some(t) = prebalance {
                body.push(0x73);
                body.extend_from_slice(t.as_slice());
                body.extend_from_slice(&[0x31, 0x50]);
            }
            body.extend_from_slice(&[0x5f, 0x5f, 0x5f, 0x5f, 0xec, 0x00, 0x5f, 0x55, 0x00]);
            let mut c = crate::props::c26::Cont::simple(body, 4);
            c.containers = vec![crate::props::c26::sub_init()];
            return c.raw();
        }
    };
    // store the result (created address or 0) and the gas left afterwards
    a.push_u(0).op(op::SSTORE).op(op::GAS).push_u(1).op(op::SSTORE).op(op::STOP).build()
}

pub fn tx_case(c: &Case21) -> TxCase {
    let spec = spec_from_name(&c.spec);
    let t = target_of(c.kind, c.pretouch);
    let mut w = base_world();
    w.insert(A, PlainAcc::contract(&creator_code(c.kind, if c.warm == 2 { Some(t) } else { None })));
    let mut acc = PlainAcc::default();
    if c.code {
        acc.code = vec![0x00u8].into();
    }
    if c.nonce {
        acc.nonce = 7;
    }
    if c.storage {
        acc.storage.insert(U256::from(3), U256::from(9));
    }
    if c.balance {
        acc.balance = U256::from(11);
    }
    if c.code || c.nonce || c.storage || c.balance {
        w.insert(t, acc);
    }
    let mut tc = TxCase::new(spec, w);
    tc.tx.gas_limit = 5_000_000;
    tc.tx.nonce = Some(c.pretouch as u64);
    if c.warm == 1 {
        tc.tx.access_list = vec![(t, vec![])];
    }
    if c.kind == Kind::CreateTx {
        tc.tx.to = None;
        tc.tx.data = init_code().into();
    }
    if c.kind == Kind::EofCreateTx {
        tc.tx.to = None;
        tc.tx.data = crate::props::c26::sub_init().into();
    }
    tc
}

fn run_on<DB: Database>(tc: &TxCase, db: DB) -> Result<ResultAndState, String>
where
    DB::Error: std::fmt::Debug,
{
    let spec = tc.spec();
    let b = Evm::builder().with_db(db).with_env(tc.env()).with_spec_id(spec);
    let mut evm = if tc.reward { b.build() } else { b.with_handler(Handler::mainnet_with_spec(spec, false)).build() };
    match catch(|| evm.transact()) {
        Ok(Ok(r)) => Ok(r),
        Ok(Err(e)) => Err(match e {
            EVMError::Transaction(t) => format!("invalid: {t:?}"),
            o => format!("{o:?}"),
        }),
        Err(p) => Err(format!("panic: {p}")),
    }
}

fn two_step<DB: Database + revm::DatabaseCommit>(c: &Case21, tc: &TxCase, mut db: DB) -> Result<ResultAndState, String>
where
    DB::Error: std::fmt::Debug,
{
    if c.pretouch {
        let mut pre = tc.clone();
        pre.tx.to = Some(target_of(c.kind, c.pretouch));
        pre.tx.data = Default::default();
        pre.tx.value = U256::from(1);
        pre.tx.nonce = Some(0);
        let r = run_on(&pre, &mut db)?;
        if !r.result.is_success() {
            return Err(format!("pre-touch transaction failed: {:?}", r.result));
        }
        db.commit(r.state);
    }
    run_on(tc, &mut db)
}
pub fn execute(c: &Case21) -> Result<ResultAndState, String> {
    let tc = tx_case(c);
    let t = target_of(c.kind, c.pretouch);
    let mut tdb = TestDb::new(&tc.world);
    tdb.hide_empty = c.ghost;
    match c.layer {
        Layer::Direct => run_on(&tc, tdb),
        Layer::MutRef => run_on(&tc, &mut tdb),
        Layer::Boxed => run_on(&tc, Box::new(tdb)),
        Layer::WrapRef => run_on(&tc, WrapDatabaseRef(tdb)),
        Layer::StateOver => two_step(c, &tc, State::builder().with_database(tdb).build()),
        Layer::StateBundleOver => two_step(c, &tc, State::builder().with_database(tdb).with_bundle_update().build()),
        Layer::CacheOver => two_step(c, &tc, CacheDB::new(tdb)),
        Layer::CacheInserted => {
            // everything lives in the cache database itself
            let mut db = CacheDB::new(EmptyDB::default());
            for (a, acc) in &tc.world {
                if !(c.ghost && *a == t) {
                    db.insert_account_info(*a, acc.info());
                }
                for (k, v) in &acc.storage {
                    db.insert_account_storage(*a, *k, *v).unwrap();
                }
            }
            two_step(c, &tc, db)
        }
    }
}

pub fn check(c: &Case21) -> (Vec<(String, String)>, String) {
    let (mut v, sig) = check_inner(c);
    // known pattern (see C20): State forgets the storage of a codeless, nonce-less account once it changes
    if c.pretouch && c.storage && !c.code && !c.nonce && matches!(c.layer, Layer::StateOver | Layer::StateBundleOver) {
        // (the creation that wrongly proceeds also changes the target: one root cause, one entry)
        if let Some(i) = v.iter().position(|x| x.0.starts_with("collision-not-detected")) {
            let mut x = v.swap_remove(i);
            x.0 = "state-forgets-storage-of-codeless-account".into();
            v = vec![x];
        }
    }
    (v, sig)
}
fn check_inner(c: &Case21) -> (Vec<(String, String)>, String) {
    let mut v = vec![];
    let expect_collision = c.code || c.nonce || c.storage;
    let t = target_of(c.kind, c.pretouch);
    let r = match execute(c) {
        Ok(r) => r,
        Err(e) => {
            v.push(("driver-failed".into(), e));
            return (v, "error".into());
        }
    };
    let tc = tx_case(c);
    let (created, sig) = match c.kind {
        Kind::CreateTx | Kind::EofCreateTx => {
            let ok = r.result.is_success();
            if expect_collision && !(r.result.is_halt() && r.result.gas_used() == tc.tx.gas_limit) {
                v.push((format!("collision-not-detected:{:?}:{:?}", c.kind, c.layer), format!("create transaction onto an address with code={} nonce={} storage={} ended with {:?}", c.code, c.nonce, c.storage, r.result)));
            }
            (ok, format!("{:?}", r.result.is_success()))
        }
        _ => {
            let spec = spec_from_name(&c.spec);
            if !spec.is_enabled_in(SpecId::TANGERINE) {
                // before EIP-150 a creation receives all remaining gas: a collision burns it and the
                // creator frame itself runs out of gas
                let halted = r.result.is_halt() && r.result.gas_used() == tc.tx.gas_limit;
                if expect_collision != halted {
                    let key = if expect_collision { format!("collision-not-detected:{:?}:{:?}", c.kind, c.layer) } else { format!("spurious-collision:{:?}:{:?}", c.kind, c.layer) };
                    v.push((key, format!("{:?} onto an address with code={} nonce={} storage={} ended with {:?}", c.kind, c.code, c.nonce, c.storage, r.result)));
                }
                return (v, format!("{}", !halted));
            }
            let a = r.state.get(&A);
            let res = a.and_then(|a| a.storage.get(&U256::ZERO)).map(|s| s.present_value).unwrap_or_default();
            let gas_left = if c.kind == Kind::EofCreate {
                U256::from(tc.tx.gas_limit - r.result.gas_used())
            } else {
                a.and_then(|a| a.storage.get(&U256::from(1))).map(|s| s.present_value).unwrap_or_default()
            };
            let nonce = a.map(|a| a.info.nonce).unwrap_or(0);
            if nonce != 2 {
                v.push(("creator-nonce".into(), format!("creator nonce is {nonce}, expected 2")));
            }
            if expect_collision {
                // all gas passed to the creation (all but 1/64) is consumed
                if !res.is_zero() {
                    v.push((format!("collision-not-detected:{:?}:{:?}", c.kind, c.layer), format!("{:?} onto an address with code={} nonce={} storage={} returned {res}", c.kind, c.code, c.nonce, c.storage)));
                } else if gas_left > U256::from(tc.tx.gas_limit / 60) {
                    v.push(("collision-gas-not-consumed".into(), format!("{gas_left} gas left after a colliding creation")));
                }
            }
            (!res.is_zero(), format!("{}", !res.is_zero()))
        }
    };
    if expect_collision {
        if created {
            // (already reported above)
        }
        // target unchanged
        if let Some(acc) = r.state.get(&t) {
            let mut pre = tc.world.get(&t).cloned().unwrap_or_default();
            if c.pretouch {
                pre.balance += U256::from(1);
            }
            let changed = acc.info.balance != pre.balance || acc.info.nonce != pre.nonce || acc.info.code_hash != pre.code_hash() || acc.is_created() || acc.storage.values().any(|s| s.present_value != s.original_value);
            if changed {
                v.push(("collision-changed-target".into(), format!("target after the failed creation: {:?} status {:?}", acc.info, acc.status)));
            }
        }
    } else if !created {
        v.push((format!("spurious-collision:{:?}:{:?}", c.kind, c.layer), format!("{:?} onto a free address (balance only: {}) failed: {:?}", c.kind, c.balance, r.result)));
    }
    (v, sig)
}

pub fn replay(case: &Value) -> Vec<Violation> {
    let c: Case21 = serde_json::from_value(case.clone()).unwrap();
    check(&c).0.into_iter().map(|(k, m)| Violation { key: k, msg: m, case: case.clone() }).collect()
}

pub fn run(ctx: &Ctx) -> i32 {
    let specs = [SpecId::FRONTIER, SpecId::HOMESTEAD, SpecId::TANGERINE, SpecId::SPURIOUS_DRAGON, SpecId::BYZANTIUM, SpecId::PETERSBURG, SpecId::ISTANBUL, SpecId::BERLIN, SpecId::LONDON, SpecId::SHANGHAI, SpecId::CANCUN, SpecId::PRAGUE, SpecId::OSAKA];
    let mut cases = vec![];
    for s in specs {
        for kind in [Kind::Create, Kind::Create2, Kind::CreateTx, Kind::EofCreate, Kind::EofCreateTx] {
            if kind == Kind::Create2 && !s.is_enabled_in(SpecId::CONSTANTINOPLE) {
                continue;
            }
            if matches!(kind, Kind::EofCreate | Kind::EofCreateTx) && !s.is_enabled_in(SpecId::OSAKA) {
                continue;
            }
            for layer in LAYERS {
                for bits in 0..16u8 {
                    let base = Case21 { spec: spec_name(s), kind, layer, code: bits & 1 != 0, nonce: bits & 2 != 0, storage: bits & 4 != 0, balance: bits & 8 != 0, ghost: false, pretouch: false, warm: 0 };
                    cases.push(base.clone());
                    if s.is_enabled_in(SpecId::BERLIN) {
                        cases.push(Case21 { warm: 1, ..base.clone() });
                    }
                    if !matches!(kind, Kind::CreateTx | Kind::EofCreateTx) {
                        cases.push(Case21 { warm: 2, ..base.clone() });
                    }
                    let commits = matches!(layer, Layer::StateOver | Layer::StateBundleOver | Layer::CacheOver | Layer::CacheInserted);
                    if commits {
                        cases.push(Case21 { pretouch: true, ..base.clone() });
                    }
                    // storage-only target without an account record: only where the layer itself can be in that
                    // shape (a pass-through to the database's own answers, or storage inserted into a CacheDB
                    // without account info); a caching layer over such a database has no way to tell it from a
                    // destroyed account and is not asked to
                    if bits == 4 && matches!(layer, Layer::Direct | Layer::MutRef | Layer::Boxed | Layer::WrapRef | Layer::CacheInserted) {
                        cases.push(Case21 { ghost: true, ..base.clone() });
                    }
                }
            }
        }
    }
    let _ = ctx;
    let accs: Vec<Acc> = cases
        .par_chunks(16)
        .map(|ch| {
            let mut a = Acc::new();
            for c in ch {
                let (v, sig) = check(c);
                a.evaluations += 1;
                a.states += 1;
                a.transitions += 1;
                a.distinct(&(&c.spec, c.kind, c.layer, c.code, c.nonce, c.storage, c.ghost, c.pretouch, c.warm, &sig));
                a.outcome(&format!("created={sig}"));
                if a.samples.is_empty() && c.storage && !c.code && !c.nonce {
                    a.sample(|| json!({"case": c, "created": sig}));
                }
                for (k, m) in v {
                    a.violation(Violation { key: k, msg: format!("{c:?}: {m}"), case: serde_json::to_value(c).unwrap() });
                }
            }
            a
        })
        .collect();
    let acc = merge_all(accs);
    let meta = Meta {
        rule: "target pre-state in {code, nonce, storage, balance}^4 x {CREATE, CREATE2, create transaction; under OSAKA also EOFCREATE and an EOF creation transaction} x 8 database layers (plain database, &mut, Box, WrapDatabaseRef, State, State with bundle tracking, CacheDB over it, storage inserted into CacheDB) x 13 specs; for the committing layers also after an earlier committed transaction sent 1 wei to the target, and for the storage-only target also with a database that keeps no account record for it; every case also with the target already warm (named in the access list without keys from BERLIN; its balance read by the creator first); distinct = distinct (spec, kind, layer, pre-state, created?)".into(),
        assumptions: vec!["the plain test database implements has_storage from its own maps".into()],
        bounds: json!({"cases": cases.len()}),
        min_distinct: 500,
        exhaustive: true,
        explanation: "collision <=> code or nonce or storage; on collision the passed gas is consumed, the creator's nonce still increases and the target is unchanged".into(),
    };
    finish(ctx, acc, meta, &replay)
}
