//! C20: database wrappers answer queries exactly like the data they wrap — E1.
use crate::explore::{self, Canon, Model};
use crate::fw::*;
use crate::testdb::{block_hash_of, TestDb};
use crate::world::*;
use revm::db::{CacheDB, State, WrapDatabaseRef};
use revm::primitives::db::{DatabaseComponents};
use revm::primitives::{address, Account, AccountInfo, AccountStatus, Address, Bytecode, EvmState, EvmStorageSlot, SpecId, B256, KECCAK_EMPTY, U256};
use revm::{Database, DatabaseCommit, DatabaseRef};
use serde::{Deserialize, Serialize};
use serde_json::{json, Value};

pub const X: Address = address!("00000000000000000000000000000000000000d1");
pub const Y: Address = address!("00000000000000000000000000000000000000d2");

#[derive(Clone, Copy, Debug, PartialEq, Eq, Hash, Serialize, Deserialize)]
pub enum Shape {
    Absent,
    EmptyExisting,
    Eoa,
    Code,
    StorOnly,
    CodeAndStorage,
}
pub const SHAPES: [Shape; 6] = [Shape::Absent, Shape::EmptyExisting, Shape::Eoa, Shape::Code, Shape::StorOnly, Shape::CodeAndStorage];
fn shape(s: Shape) -> Option<PlainAcc> {
    Some(match s {
        Shape::Absent => return None,
        Shape::EmptyExisting => PlainAcc::default(),
        Shape::Eoa => PlainAcc::eoa(7).with_nonce(2),
        Shape::Code => PlainAcc::contract(&[0x60, 0x00, 0x00]),
        Shape::StorOnly => PlainAcc::default().with_storage(1, 1),
        Shape::CodeAndStorage => PlainAcc::contract(&[0x5b, 0x00]).with_storage(0, 3).with_storage(1, 4),
    })
}

#[derive(Clone, Copy, Debug, PartialEq, Eq, Hash, Serialize, Deserialize)]
pub enum Wrap {
    CacheDb,
    CacheDbRefFace,
    State,
    StateBundle,
    WrapRef,
    MutRef,
    Boxed,
    Components,
}
pub const WRAPS: [Wrap; 8] = [Wrap::CacheDb, Wrap::CacheDbRefFace, Wrap::State, Wrap::StateBundle, Wrap::WrapRef, Wrap::MutRef, Wrap::Boxed, Wrap::Components];

#[derive(Clone, Debug, Serialize, Deserialize, PartialEq, Eq, Hash)]
pub enum Op {
    Basic(u8),
    Code(u8),
    Storage(u8, u64),
    HasStorage(u8),
    BlockHash(u64),
    Commit(u8),
}
fn adr(i: u8) -> Address {
    if i == 0 { X } else { Y }
}

/// object-safe face over all wrappers
trait Face {
    fn basic(&mut self, a: Address) -> Option<AccountInfo>;
    fn code(&mut self, h: B256) -> Bytecode;
    fn storage(&mut self, a: Address, k: U256) -> U256;
    fn has_storage(&mut self, a: Address) -> bool;
    fn block_hash(&mut self, n: u64) -> B256;
    fn commit(&mut self, st: EvmState) -> bool;
}
struct Mutable<D>(D);
impl<D: Database + DatabaseCommit> Face for Mutable<D>
where
    D::Error: std::fmt::Debug,
{
    fn basic(&mut self, a: Address) -> Option<AccountInfo> {
        self.0.basic(a).unwrap()
    }
    fn code(&mut self, h: B256) -> Bytecode {
        self.0.code_by_hash(h).unwrap()
    }
    fn storage(&mut self, a: Address, k: U256) -> U256 {
        self.0.storage(a, k).unwrap()
    }
    fn has_storage(&mut self, a: Address) -> bool {
        self.0.has_storage(a).unwrap()
    }
    fn block_hash(&mut self, n: u64) -> B256 {
        self.0.block_hash(n).unwrap()
    }
    fn commit(&mut self, st: EvmState) -> bool {
        self.0.commit(st);
        true
    }
}
struct RefFace<D>(D);
impl<D: DatabaseRef + DatabaseCommit> Face for RefFace<D>
where
    D::Error: std::fmt::Debug,
{
    fn basic(&mut self, a: Address) -> Option<AccountInfo> {
        self.0.basic_ref(a).unwrap()
    }
    fn code(&mut self, h: B256) -> Bytecode {
        self.0.code_by_hash_ref(h).unwrap()
    }
    fn storage(&mut self, a: Address, k: U256) -> U256 {
        self.0.storage_ref(a, k).unwrap()
    }
    fn has_storage(&mut self, a: Address) -> bool {
        self.0.has_storage_ref(a).unwrap()
    }
    fn block_hash(&mut self, n: u64) -> B256 {
        self.0.block_hash_ref(n).unwrap()
    }
    fn commit(&mut self, st: EvmState) -> bool {
        self.0.commit(st);
        true
    }
}
impl DatabaseCommit for TestDb {
    fn commit(&mut self, changes: EvmState) {
        commit_plain(&mut self.accounts, &changes, SpecId::CANCUN);
    }
}
/// `&mut D` and `Box<D>` adapters are exercised by going through the blanket impls
struct ViaMut(TestDb);
impl Face for ViaMut {
    fn basic(&mut self, a: Address) -> Option<AccountInfo> {
        let mut r = &mut self.0;
        Database::basic(&mut r, a).unwrap()
    }
    fn code(&mut self, h: B256) -> Bytecode {
        let mut r = &mut self.0;
        Database::code_by_hash(&mut r, h).unwrap()
    }
    fn storage(&mut self, a: Address, k: U256) -> U256 {
        let mut r = &mut self.0;
        Database::storage(&mut r, a, k).unwrap()
    }
    fn has_storage(&mut self, a: Address) -> bool {
        let mut r = &mut self.0;
        Database::has_storage(&mut r, a).unwrap()
    }
    fn block_hash(&mut self, n: u64) -> B256 {
        let mut r = &mut self.0;
        Database::block_hash(&mut r, n).unwrap()
    }
    fn commit(&mut self, st: EvmState) -> bool {
        let mut r = &mut self.0;
        DatabaseCommit::commit(&mut r, st);
        true
    }
}

pub struct CompState(TestDb);
pub struct CompBh;
impl revm::primitives::db::State for CompState {
    type Error = std::convert::Infallible;
    fn basic(&mut self, a: Address) -> Result<Option<AccountInfo>, Self::Error> {
        self.0.basic_ref(a)
    }
    fn code_by_hash(&mut self, h: B256) -> Result<Bytecode, Self::Error> {
        self.0.code_by_hash_ref(h)
    }
    fn storage(&mut self, a: Address, k: U256) -> Result<U256, Self::Error> {
        self.0.storage_ref(a, k)
    }
}
impl DatabaseCommit for CompState {
    fn commit(&mut self, changes: EvmState) {
        DatabaseCommit::commit(&mut self.0, changes)
    }
}
impl revm::primitives::db::BlockHash for CompBh {
    type Error = std::convert::Infallible;
    fn block_hash(&mut self, n: u64) -> Result<B256, Self::Error> {
        Ok(block_hash_of(n))
    }
}
impl revm::primitives::db::BlockHashRef for CompBh {
    type Error = std::convert::Infallible;
    fn block_hash(&self, n: u64) -> Result<B256, Self::Error> {
        Ok(block_hash_of(n))
    }
}

pub struct S {
    face: Box<dyn Face>,
    refp: Plain,
    orig: Plain,
    loaded: [bool; 2],
    cleared: [bool; 2],
    /// block numbers asked so far: wrappers cache and prune them, so they are part of the state
    asked: std::collections::BTreeSet<u64>,
    /// the two independent operation sequences (account queries / commits, block-hash queries): what a
    /// wrapper caches depends on the order of queries and commits, which the reference data does not show
    seq_acc: Vec<Op>,
    seq_bh: Vec<u64>,
    last: String,
}
pub struct M {
    pub wrap: Wrap,
    pub sx: Shape,
    pub sy: Shape,
}

fn change(i: u8) -> EvmState {
    let mut st = EvmState::default();
    let slot = |orig: u64, now: u64| EvmStorageSlot { original_value: U256::from(orig), present_value: U256::from(now), is_cold: false };
    match i {
        0 => {
            // X: balance 9, slot0 := 5
            let mut a = Account { info: AccountInfo::from_balance(U256::from(9)), storage: Default::default(), status: AccountStatus::Touched };
            a.storage.insert(U256::ZERO, slot(0, 5));
            st.insert(X, a);
        }
        1 => {
            // X: slot1 := 0
            let mut a = Account { info: AccountInfo::from_balance(U256::from(9)), storage: Default::default(), status: AccountStatus::Touched };
            a.storage.insert(U256::from(1), slot(1, 0));
            st.insert(X, a);
        }
        2 => {
            // X self-destructed
            st.insert(X, Account { info: AccountInfo::default(), storage: Default::default(), status: AccountStatus::Touched | AccountStatus::SelfDestructed });
        }
        3 => {
            // X (re)created with storage {2: 2} and code
            let code = Bytecode::new_legacy(vec![0x00u8].into());
            let mut a = Account { info: AccountInfo { balance: U256::from(1), nonce: 1, code_hash: code.hash_slow(), code: Some(code) }, storage: Default::default(), status: AccountStatus::Touched | AccountStatus::Created };
            a.storage.insert(U256::from(2), slot(0, 2));
            st.insert(X, a);
        }
        5 => {
            // X created with storage {0: 1} only: a second creation must not inherit slots of an earlier one
            let code = Bytecode::new_legacy(vec![0x5bu8, 0x00].into());
            let mut a = Account { info: AccountInfo { balance: U256::from(2), nonce: 1, code_hash: code.hash_slow(), code: Some(code) }, storage: Default::default(), status: AccountStatus::Touched | AccountStatus::Created };
            a.storage.insert(U256::ZERO, slot(0, 1));
            st.insert(X, a);
        }
        _ => {
            // Y touched while empty
            st.insert(Y, Account { info: AccountInfo::default(), storage: Default::default(), status: AccountStatus::Touched });
        }
    }
    st
}

impl M {
    /// nonce 0, no code, but storage: the EIP-7610 shape
    fn codeless_with_storage(&self, i: u8) -> bool {
        (if i == 0 { self.sx } else { self.sy }) == Shape::StorOnly
    }
}
impl Model for M {
    type State = S;
    type Op = Op;
    fn name(&self) -> String {
        format!("db/{:?}/{:?}/{:?}", self.wrap, self.sx, self.sy)
    }
    fn inits(&self) -> Vec<Vec<Op>> {
        vec![vec![]]
    }
    fn fresh(&self) -> S {
        let mut p = Plain::new();
        if let Some(a) = shape(self.sx) {
            p.insert(X, a);
        }
        if let Some(a) = shape(self.sy) {
            p.insert(Y, a);
        }
        let t = TestDb::new(&p);
        let face: Box<dyn Face> = match self.wrap {
            Wrap::CacheDb => Box::new(Mutable(CacheDB::new(t))),
            Wrap::CacheDbRefFace => Box::new(RefFace(CacheDB::new(t))),
            Wrap::State => Box::new(Mutable(State::builder().with_database(t).build())),
            Wrap::StateBundle => Box::new(Mutable(State::builder().with_database(t).with_bundle_update().build())),
            Wrap::WrapRef => Box::new(Mutable(WrapDatabaseRef(t))),
            Wrap::MutRef => Box::new(ViaMut(t)),
            Wrap::Boxed => Box::new(Mutable(Box::new(t))),
            Wrap::Components => Box::new(Mutable(DatabaseComponents { state: CompState(t), block_hash: CompBh })),
        };
        S { face, refp: p.clone(), orig: p, loaded: [false; 2], cleared: [false; 2], asked: Default::default(), seq_acc: vec![], seq_bh: vec![], last: String::new() }
    }
    fn enabled(&self, s: &S) -> Vec<Op> {
        let is_state = matches!(self.wrap, Wrap::State | Wrap::StateBundle);
        let mut v = vec![];
        for i in 0..2u8 {
            v.push(Op::Basic(i));
            v.push(Op::Code(i));
            // State::storage documents that the account has been loaded before
            if !is_state || s.loaded[i as usize] {
                v.push(Op::Storage(i, 0));
                v.push(Op::Storage(i, 1));
                v.push(Op::Storage(i, 2));
            }
            if self.wrap != Wrap::Components {
                v.push(Op::HasStorage(i));
            }
        }
        for n in [0u64, 1, 255, 256, 257, 258, 511, 512, 513, u64::MAX] {
            v.push(Op::BlockHash(n));
        }
        for c in 0..6u8 {
            v.push(Op::Commit(c));
        }
        v
    }
    fn apply(&self, s: &mut S, op: &Op) -> Result<(), (String, String)> {
        match op {
            Op::BlockHash(n) => s.seq_bh.push(*n),
            o => s.seq_acc.push(o.clone()),
        }
        let e = |k: String, m: String| Err((k, m));
        // touched empty accounts are only removed by wrappers that implement state clearing
        let eq_info = |got: &Option<AccountInfo>, exp: Option<&PlainAcc>| -> bool {
            match (got, exp) {
                (None, None) => true,
                (Some(g), None) => g.is_empty(),
                (None, Some(x)) => x.is_empty(),
                (Some(g), Some(x)) => g.balance == x.balance && g.nonce == x.nonce && (g.code_hash == x.code_hash() || (g.code_hash == B256::ZERO && x.code.is_empty())),
            }
        };
        match op {
            Op::Basic(i) => {
                let got = s.face.basic(adr(*i));
                s.loaded[*i as usize] = true;
                if !eq_info(&got, s.refp.get(&adr(*i))) {
                    return e(format!("basic:{:?}", self.wrap), format!("basic({}) = {:?}, data says {:?}", i, got.map(|g| (g.balance, g.nonce, g.code_hash)), s.refp.get(&adr(*i))));
                }
                s.last = "basic".into();
            }
            Op::Code(i) => {
                // code is obtained the way the EVM does: from `basic`, else by hash
                let exp = s.refp.get(&adr(*i)).map(|a| a.code.clone()).unwrap_or_default();
                let info = s.face.basic(adr(*i));
                s.loaded[*i as usize] = true;
                let got = match info {
                    Some(AccountInfo { code: Some(c), .. }) => c,
                    Some(inf) => s.face.code(inf.code_hash),
                    None => Bytecode::default(),
                };
                if got.original_bytes() != exp {
                    return e(format!("code:{:?}", self.wrap), format!("code = 0x{}, data says 0x{}", hex::encode(got.original_bytes()), hex::encode(&exp)));
                }
                // asking by hash for code the wrapped data holds must work as well
                if let Some(o) = s.orig.get(&adr(*i)) {
                    if !o.code.is_empty() && exp == o.code && s.face.code(o.code_hash()).original_bytes() != o.code {
                        return e(format!("code_by_hash:{:?}", self.wrap), format!("code_by_hash of wrapped code 0x{} differs", hex::encode(&o.code)));
                    }
                }
                s.last = "code".into();
            }
            Op::Storage(i, k) => {
                let exp = s.refp.get(&adr(*i)).and_then(|a| a.storage.get(&U256::from(*k)).copied()).unwrap_or_default();
                let got = s.face.storage(adr(*i), U256::from(*k));
                if got != exp {
                    let key = if self.codeless_with_storage(*i) && matches!(self.wrap, Wrap::State | Wrap::StateBundle) { "state-forgets-storage-of-codeless-account".to_string() } else { format!("storage:{:?}", self.wrap) };
                    return e(key, format!("storage({i},{k}) = {got}, data says {exp}"));
                }
                s.last = format!("storage={exp}");
            }
            Op::HasStorage(i) => {
                let exp = s.refp.get(&adr(*i)).map(|a| a.storage.values().any(|v| !v.is_zero())).unwrap_or(false);
                let got = s.face.has_storage(adr(*i));
                // a wrapper cannot enumerate the wrapped storage: when slots it overlays were zeroed, the
                // wrapped database's own "has storage" answer is the best it can give
                let under = s.orig.get(&adr(*i)).map(|a| a.storage.values().any(|v| !v.is_zero())).unwrap_or(false);
                let excusable = got && !exp && under && !s.cleared[*i as usize];
                if got != exp && !excusable {
                    let key = if self.codeless_with_storage(*i) && matches!(self.wrap, Wrap::State | Wrap::StateBundle) { "state-forgets-storage-of-codeless-account".to_string() } else { format!("has_storage:{:?}", self.wrap) };
                    return e(key, format!("has_storage({i}) = {got}, data says {exp}"));
                }
                s.last = format!("has_storage={exp}");
            }
            Op::BlockHash(n) => {
                let got = s.face.block_hash(*n);
                if got != block_hash_of(*n) {
                    return e(format!("block_hash:{:?}", self.wrap), format!("block_hash({n}) = {got}, data says {}", block_hash_of(*n)));
                }
                s.asked.insert(*n);
                s.last = "block_hash".into();
            }
            Op::Commit(c) => {
                let st = change(*c);
                // State requires accounts to be loaded before a commit (as the EVM guarantees)
                if matches!(self.wrap, Wrap::State | Wrap::StateBundle) {
                    for a in st.keys() {
                        let i = if *a == X { 0 } else { 1 };
                        if !s.loaded[i] {
                            s.face.basic(*a);
                            s.loaded[i] = true;
                        }
                    }
                }
                // CacheDB does not implement EIP-161 state clearing at all (it keeps touched empty
                // accounts); every other wrapper here does
                let rule = if matches!(self.wrap, Wrap::CacheDb | Wrap::CacheDbRefFace) { SpecId::FRONTIER } else { SpecId::CANCUN };
                commit_plain(&mut s.refp, &st, rule);
                if *c == 2 || *c == 3 {
                    s.cleared[0] = true;
                }
                s.face.commit(st);
                s.last = format!("commit{c}");
            }
        }
        Ok(())
    }
    fn canon(&self, s: &S, c: &mut Canon) {
        // the wrapper's caches are opaque: the key is the reference data plus which queries warmed it
        c.add(&s.refp);
        c.add(&s.loaded);
        c.add(&s.cleared);
        c.add(&s.asked);
        c.add(&s.seq_acc);
        c.add(&s.seq_bh);
        c.add(&s.last);
    }
    fn outcome(&self, s: &S, _op: &Op) -> String {
        s.last.clone()
    }
}

fn all_models() -> Vec<M> {
    let mut v = vec![];
    for w in WRAPS {
        for sx in SHAPES {
            for sy in [Shape::Absent, Shape::EmptyExisting, Shape::StorOnly] {
                v.push(M { wrap: w, sx, sy });
            }
        }
    }
    v
}
pub fn replay(case: &Value) -> Vec<Violation> {
    let name = case["model"].as_str().unwrap_or("");
    for m in all_models() {
        if m.name() == name {
            return explore::replay_value(&m, case);
        }
    }
    vec![]
}
pub fn run(ctx: &Ctx) -> i32 {
    let depth = ctx.tier.pick(3, 4);
    let mut acc = Acc::new();
    for m in all_models() {
        acc.merge(explore::explore(&m, depth, ctx));
    }
    acc.sample(|| json!({"model":"db/State/StorOnly/Absent","history":[{"Basic":0},{"HasStorage":0},{"Commit":2},{"HasStorage":0}]}));
    let meta = Meta {
        rule: format!("BFS over query/commit histories of depth <= {depth} (basic, code_by_hash, storage of 3 slots, has_storage, block_hash of 10 numbers around the 256-block window, 6 commits incl. self-destruct, re-creation and a second creation) on 8 wrappers x 6 x 3 underlying account shapes; states de-duplicated only across interleavings of the account operations with the block-hash queries (two caches that share no field): the key holds both operation sequences"),
        assumptions: vec![
            "State::storage is only called after the account was loaded (documented precondition)".into(),
            "an empty account and an absent account are the same answer (wrappers differ in whether they apply state clearing)".into(),
            "has_storage may fall back to the wrapped database's answer when slots overlaid by the wrapper were zeroed and the account was not cleared".into(),
            "DatabaseComponents has no has_storage query in its component traits".into(),
        ],
        bounds: json!({"depth": depth, "wrappers": 8, "shapes": "6 x 3"}),
        min_distinct: 500,
        exhaustive: true,
        explanation: "reference = plain map updated by an independent commit rule".into(),
    };
    finish(ctx, acc, meta, &replay)
}
