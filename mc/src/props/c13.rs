//! C13: the gas meter never goes negative and failed charges change nothing — E1 on the real `Gas`.
use crate::explore::{self, Canon, Model};
use crate::fw::*;
use revm::interpreter::Gas;
use serde::{Deserialize, Serialize};
use serde_json::{json, Value};

#[derive(Clone, Debug, Serialize, Deserialize, PartialEq)]
pub enum Cost {
    Zero,
    One,
    Half,
    Remaining,
    RemainingPlus1,
    Max,
}
#[derive(Clone, Debug, Serialize, Deserialize, PartialEq)]
pub enum Op {
    New(u64),
    Record(Cost),
    /// simulate a child frame: charge `give` for it, child uses part, the rest is returned
    Child { give: Cost, returned_num: u8 },
    Refund(i64),
    SpendAll,
    FinalRefund(bool),
    SetSpent(Cost),
    SetRefund(i64),
}

pub struct S {
    g: Gas,
    // reference: unbounded integers
    limit: i128,
    remaining: i128,
    refunded: i128,
}
fn cost(c: &Cost, rem: u64) -> u64 {
    match c {
        Cost::Zero => 0,
        Cost::One => 1,
        Cost::Half => rem / 2,
        Cost::Remaining => rem,
        Cost::RemainingPlus1 => rem.saturating_add(1),
        Cost::Max => u64::MAX,
    }
}
pub struct M;
impl Model for M {
    type State = S;
    type Op = Op;
    fn name(&self) -> String {
        "gas".into()
    }
    fn inits(&self) -> Vec<Vec<Op>> {
        [0u64, 1, 2, 10, 1000, 1 << 63, u64::MAX - 1, u64::MAX]
            .iter()
            .map(|l| vec![Op::New(*l)])
            .collect()
    }
    fn fresh(&self) -> S {
        S { g: Gas::new(0), limit: 0, remaining: 0, refunded: 0 }
    }
    fn enabled(&self, s: &S) -> Vec<Op> {
        let mut v = vec![];
        for c in [Cost::Zero, Cost::One, Cost::Half, Cost::Remaining, Cost::RemainingPlus1, Cost::Max] {
            v.push(Op::Record(c));
        }
        for give in [Cost::One, Cost::Half, Cost::Remaining] {
            if matches!(give, Cost::One) && s.g.remaining() == 0 {
                continue;
            }
            for n in [0u8, 1, 2] {
                v.push(Op::Child { give: give.clone(), returned_num: n });
            }
        }
        for r in [-2i64, -1, 0, 1, 4800, 1 << 62] {
            // keep the recorded refund inside i64 as frame accounting does (refunds are bounded by gas)
            if s.refunded + (r as i128) < (i64::MAX as i128) && s.refunded + (r as i128) > (i64::MIN as i128) {
                v.push(Op::Refund(r));
            }
        }
        v.push(Op::SpendAll);
        v.push(Op::FinalRefund(false));
        v.push(Op::FinalRefund(true));
        for c in [Cost::Zero, Cost::One, Cost::Half, Cost::Max] {
            v.push(Op::SetSpent(c));
        }
        v.push(Op::SetRefund(0));
        v.push(Op::SetRefund(7));
        v
    }
    fn apply(&self, s: &mut S, op: &Op) -> Result<(), (String, String)> {
        let err = |k: &str, m: String| Err((k.to_string(), m));
        match op {
            Op::New(l) => {
                s.g = Gas::new(*l);
                s.limit = *l as i128;
                s.remaining = *l as i128;
                s.refunded = 0;
            }
            Op::Record(c) => {
                let c = cost(c, s.g.remaining());
                let before = s.g;
                let ok = s.g.record_cost(c);
                let exp_ok = (c as i128) <= s.remaining;
                if ok != exp_ok {
                    return err("charge-verdict", format!("record_cost({c}) with remaining {} returned {ok}", s.remaining));
                }
                if ok {
                    s.remaining -= c as i128;
                } else if s.g != before {
                    return err("failed-charge-changed-meter", format!("{before:?} -> {:?}", s.g));
                }
            }
            Op::Child { give, returned_num } => {
                let c = cost(give, s.g.remaining());
                if !s.g.record_cost(c) {
                    return err("charge-verdict", format!("could not charge {c} <= remaining"));
                }
                s.remaining -= c as i128;
                let ret = match returned_num {
                    0 => 0,
                    1 => c / 2,
                    _ => c,
                };
                s.g.erase_cost(ret);
                s.remaining += ret as i128;
            }
            Op::Refund(r) => {
                s.g.record_refund(*r);
                s.refunded += *r as i128;
            }
            Op::SpendAll => {
                s.g.spend_all();
                s.remaining = 0;
            }
            Op::FinalRefund(london) => {
                let spent = s.limit - s.remaining;
                let q = if *london { 5 } else { 2 };
                s.g.set_final_refund(*london);
                if s.refunded >= 0 {
                    s.refunded = s.refunded.min(spent / q);
                } else {
                    // property states no value for a negative recorded refund: adopt the real one,
                    // but it must still respect the cap
                    let r = s.g.refunded() as i128;
                    if r > spent / q {
                        return err("final-refund-cap", format!("negative recorded refund finalised to {r} > cap {}", spent / q));
                    }
                    s.refunded = r;
                }
            }
            Op::SetSpent(c) => {
                let v = match c {
                    Cost::Zero => 0,
                    Cost::One => 1,
                    Cost::Half => s.g.limit() / 2,
                    _ => u64::MAX,
                };
                s.g.set_spent(v);
                s.remaining = (s.limit - v as i128).max(0);
            }
            Op::SetRefund(r) => {
                s.g.set_refund(*r);
                s.refunded = *r as i128;
            }
        }
        let g = &s.g;
        if g.limit() as i128 != s.limit || g.remaining() as i128 != s.remaining || g.refunded() as i128 != s.refunded {
            return err(
                "meter-mismatch",
                format!("real {g:?} vs model limit={} remaining={} refunded={}", s.limit, s.remaining, s.refunded),
            );
        }
        if g.remaining() > g.limit() {
            return err("remaining-exceeds-limit", format!("{g:?}"));
        }
        if g.spent() as i128 != s.limit - s.remaining {
            return err("spent-mismatch", format!("{g:?}"));
        }
        Ok(())
    }
    fn canon(&self, s: &S, c: &mut Canon) {
        c.add(&(s.g.limit(), s.g.remaining(), s.g.refunded()));
    }
    fn outcome(&self, s: &S, op: &Op) -> String {
        let k = match op {
            Op::New(_) => "new",
            Op::Record(_) => "record",
            Op::Child { .. } => "child",
            Op::Refund(_) => "refund",
            Op::SpendAll => "spend_all",
            Op::FinalRefund(_) => "final_refund",
            Op::SetSpent(_) => "set_spent",
            Op::SetRefund(_) => "set_refund",
        };
        format!("{k}/rem{}", if s.remaining == 0 { "0" } else if s.remaining == s.limit { "=limit" } else { "mid" })
    }
}

pub fn replay(case: &Value) -> Vec<Violation> {
    explore::replay_value(&M, case)
}

pub fn run(ctx: &Ctx) -> i32 {
    let depth = ctx.tier.pick(8, 12);
    let acc = explore::explore(&M, depth, ctx);
    let meta = Meta {
        rule: "BFS over histories of real Gas operations from 8 limits, de-duplicated by (limit, remaining, refunded); distinct = distinct (state, op kind, remaining class)".into(),
        assumptions: vec![
            "erase_cost only returns gas previously charged for a child frame (frame accounting contract)".into(),
            "recorded refunds stay inside i64 (they are bounded by gas in real use)".into(),
            "for a negative recorded refund the property states no final value; only the cap is demanded".into(),
        ],
        bounds: json!({"depth": depth, "limits":[0,1,2,10,1000,"2^63","2^64-2","2^64-1"]}),
        min_distinct: 100,
        exhaustive: true,
        explanation: "every sequence up to depth over the alphabet; real Gas vs i128 model compared after each op".into(),
    };
    finish(ctx, acc, meta, &replay)
}
