//! Shared driver for the transaction-level invariant properties (C08 ether conservation, C09 gas and
//! fee rules) over the general E2 case space.
use crate::exec::*;
use crate::fw::*;
use crate::gen::*;
use crate::lattice::big;
use crate::macros::*;
use crate::props::c32::ref_fake_exp;
use crate::world::*;
use num_bigint::BigUint;
use num_traits::{ToPrimitive, Zero};
use rayon::prelude::*;
use revm::primitives::{SpecId, U256};
use serde_json::{json, Value};

pub fn eff_price(c: &TxCase) -> U256 {
    match c.tx.priority_fee {
        Some(p) => c.tx.gas_price.min(c.block.basefee + p),
        None => c.tx.gas_price,
    }
}
pub fn blob_fee(c: &TxCase) -> BigUint {
    if c.tx.blob_hashes.is_empty() || !c.spec().is_enabled_in(SpecId::CANCUN) {
        return BigUint::zero();
    }
    let frac = if c.spec().is_enabled_in(SpecId::PRAGUE) { 5007716u64 } else { 3338477 };
    let price = ref_fake_exp(1, c.block.excess_blob_gas, frac).unwrap();
    price * BigUint::from(131072u64) * BigUint::from(c.tx.blob_hashes.len())
}

pub struct Run {
    pub o: Outcome,
    pub post: Plain,
    pub mon: crate::monitor::Mon,
}
pub fn run_case(c: &TxCase) -> Run {
    let (o, mon, _) = exec_monitored(c, false);
    let mut post = c.world.clone();
    commit_plain(&mut post, &o.state, c.spec());
    Run { o, post, mon }
}

/// C08: total balance before vs after.
pub fn check_conservation(c: &TxCase, r: &Run) -> Vec<(String, String)> {
    let mut v = vec![];
    if r.o.class == Class::Invalid {
        return v;
    }
    if r.o.class == Class::Fatal {
        let key = if r.mon.sd_failed > 0 || r.o.reason.contains("overflow") { "panic:balance-overflow" } else { "panic" };
        v.push((key.to_string(), format!("execution panicked: {}", r.o.reason)));
        return v;
    }
    let spec = c.spec();
    let pre = total_balance(&c.world);
    let post = total_balance(&r.post);
    let mut burned = BigUint::zero();
    if spec.is_enabled_in(SpecId::LONDON) {
        burned += big(c.block.basefee) * BigUint::from(r.o.gas_used);
    }
    burned += blob_fee(c);
    // ether that leaves with deleted accounts: self-targeted burns in committed frames plus what a
    // deleted account still holds when the transaction ends
    let mut deleted_burn = BigUint::zero();
    for (a, acc) in &r.o.state {
        if acc.is_selfdestructed() && acc.is_touched() {
            deleted_burn += big(acc.info.balance);
            for ev in r.mon.sd_committed.iter().filter(|e| e.address == *a && e.beneficiary == *a) {
                deleted_burn += big(ev.balance_before) - big(ev.balance_after);
            }
        }
    }
    burned += &deleted_burn;
    if !c.reward {
        let cb_price = if spec.is_enabled_in(SpecId::LONDON) { eff_price(c) - c.block.basefee } else { eff_price(c) };
        burned += big(cb_price) * BigUint::from(r.o.gas_used);
    }
    // overflow class: a completed SELFDESTRUCT whose beneficiary balance could not hold the sum
    let overflow_sd = r.mon.sd_all.iter().any(|e| {
        e.address != e.beneficiary && {
            let ben = c.world.get(&e.beneficiary).map(|a| a.balance).unwrap_or_default();
            ben.checked_add(e.balance_before).is_none()
        }
    });
    if &post + &burned != pre {
        let (dir, diff) = if &post + &burned > pre { ("created", &post + &burned - &pre) } else { ("destroyed", &pre - (&post + &burned)) };
        let key = if overflow_sd { "selfdestruct-beneficiary-overflow".to_string() } else { format!("ether-{dir}") };
        v.push((
            key,
            format!("total balance before {pre}, after {post}, accounted burn {burned} (of which deleted accounts {deleted_burn}): {diff} wei {dir}; result {:?}/{} gas_used {}", r.o.class, r.o.reason, r.o.gas_used),
        ));
    }
    v
}

/// C09: gas used and fees.
pub fn check_gas_rules(c: &TxCase, r: &Run) -> Vec<(String, String)> {
    let mut v = vec![];
    let o = &r.o;
    if o.class == Class::Invalid {
        return v;
    }
    if o.class == Class::Fatal {
        v.push(("panic".into(), o.reason.clone()));
        return v;
    }
    let spec = c.spec();
    let create = c.tx.to.is_none();
    let keys: u64 = c.tx.access_list.iter().map(|(_, k)| k.len() as u64).sum();
    let auths = c.tx.auth_list.as_ref().map(|l| l.len() as u64).unwrap_or(0);
    let intrinsic = intrinsic_simple(spec, &c.tx.data, create, c.tx.access_list.len() as u64, keys, auths);
    let floor = floor_simple(spec, &c.tx.data);
    if o.gas_used > c.tx.gas_limit {
        v.push(("gas-used-above-limit".into(), format!("gas_used {} > gas_limit {}", o.gas_used, c.tx.gas_limit)));
    }
    // gas used before refunds must cover the intrinsic gas
    // EIP-7702: the per-authority refund (12500 for each valid authorization whose authority already
    // exists) belongs to the transaction, not to the execution, and is granted whatever the outcome
    let auth_refund = auth_refund(c);
    let unobserved_refund = if o.class == Class::Success { 0 } else { auth_refund };
    // when the EIP-7623 floor engages, the result reports (floor, refund 0): what was spent before the
    // refund is then not observable (and a 7702 refund can put the floor below the intrinsic gas)
    let floor_engaged = floor > 0 && o.gas_used == floor && o.gas_refunded == 0;
    if !floor_engaged && o.gas_used + o.gas_refunded + unobserved_refund < intrinsic {
        v.push(("gas-below-intrinsic".into(), format!("gas spent {} < intrinsic {intrinsic}", o.gas_used + o.gas_refunded)));
    }
    if o.gas_used < floor {
        v.push(("gas-below-floor".into(), format!("gas_used {} < EIP-7623 floor {floor}", o.gas_used)));
    }
    let q = if spec.is_enabled_in(SpecId::LONDON) { 5 } else { 2 };
    let spent = o.gas_used + o.gas_refunded;
    if o.gas_refunded > spent / q {
        v.push(("refund-above-cap".into(), format!("refund {} > spent {spent} / {q}", o.gas_refunded)));
    }
    let halt_expect = (c.tx.gas_limit - auth_refund.min(c.tx.gas_limit / q)).max(floor);
    if o.class == Class::Halt && o.gas_used != halt_expect {
        v.push(("halt-not-all-gas".into(), format!("halted ({}) but gas_used {} != gas_limit {} (minus the EIP-7702 authorization refund {auth_refund})", o.reason, o.gas_used, c.tx.gas_limit)));
    }
    // fee flows (programs in this alphabet never pay the sender or the coinbase)
    let price = big(eff_price(c));
    let gas_fee = &price * BigUint::from(o.gas_used);
    let value = if o.class == Class::Success { big(c.tx.value) } else { BigUint::zero() };
    let cb_price = if spec.is_enabled_in(SpecId::LONDON) { big(eff_price(c) - c.block.basefee) } else { price.clone() };
    let reward = if c.reward { &cb_price * BigUint::from(o.gas_used) } else { BigUint::zero() };
    let bal = |p: &Plain, a| p.get(&a).map(|x| big(x.balance)).unwrap_or_default();
    let s_pre = bal(&c.world, c.tx.caller);
    let s_post = bal(&r.post, c.tx.caller);
    let mut expect_debit = &gas_fee + blob_fee(c) + &value;
    let cb = c.block.coinbase;
    if cb == c.tx.caller {
        // the sender receives its own tip
        expect_debit -= &reward;
    }
    if &s_post + &expect_debit != s_pre {
        v.push((
            "sender-debit".into(),
            format!("sender balance {s_pre} -> {s_post}; expected debit {expect_debit} = price {price} x gas_used {} + blob fee {} + value {value}", o.gas_used, blob_fee(c)),
        ));
    }
    if cb != c.tx.caller {
        let c_pre = bal(&c.world, cb);
        let c_post = bal(&r.post, cb);
        if &c_pre + &reward != c_post {
            v.push(("coinbase-credit".into(), format!("coinbase balance {c_pre} -> {c_post}; expected credit {reward} (reward enabled: {})", c.reward)));
        }
    }
    let _ = floor.to_u64();
    v
}

/// 12500 gas for every authorization that EIP-7702 accepts and whose authority already exists.
pub fn auth_refund(c: &TxCase) -> u64 {
    if !c.spec().is_enabled_in(SpecId::PRAGUE) {
        return 0;
    }
    let mut n = 0;
    let mut nonces: std::collections::BTreeMap<revm::primitives::Address, u64> = Default::default();
    for a in c.tx.auth_list.iter().flatten() {
        let Some(auth) = a.authority else { continue };
        if a.chain_id != 0 && a.chain_id != 1 {
            continue;
        }
        let acc = c.world.get(&auth).cloned().unwrap_or_default();
        let mut nonce = *nonces.get(&auth).unwrap_or(&acc.nonce);
        if auth == c.tx.caller && !nonces.contains_key(&auth) {
            nonce += 1;
        }
        let code_ok = acc.code.is_empty() || (acc.code.len() == 23 && acc.code.starts_with(&[0xef, 0x01, 0x00]));
        if !code_ok || a.nonce != nonce || a.nonce == u64::MAX {
            continue;
        }
        let exists = !acc.is_empty() || nonces.contains_key(&auth);
        if exists {
            n += 1;
        }
        nonces.insert(auth, nonce + 1);
    }
    12500 * n
}

pub fn fee_safe_alphabet() -> Vec<Mac> {
    general_alphabet()
        .into_iter()
        .filter(|m| {
            !matches!(m, Mac::SelfDestruct(x) if *x == SENDER || *x == COINBASE)
                && !matches!(m, Mac::Call { to, .. } if *to == COINBASE || *to == BSD)
                && !matches!(m, Mac::Create { init: Init::SelfDestruct, .. } | Mac::Create2 { init: Init::SelfDestruct, .. })
        })
        .collect()
}

pub fn specs_for(tier: Tier) -> Vec<SpecId> {
    match tier {
        Tier::Quick => MAINNET_SPECS.to_vec(),
        Tier::Thorough => MAINNET_SPECS.to_vec(),
    }
}

/// Enumerate (spec, variant, sequence) and call `f` on every case in parallel.
pub fn sweep(
    ctx: &Ctx,
    alpha: &[Mac],
    depth_all: usize,
    deep: &[(SpecId, usize)],
    f: &(dyn Fn(&TxCase, &Run) -> Vec<(String, String)> + Sync),
) -> Acc {
    let mut jobs: Vec<(SpecId, Vec<Mac>)> = vec![];
    for s in specs_for(ctx.tier) {
        let d = deep.iter().find(|(x, _)| *x == s).map(|(_, d)| *d).unwrap_or(depth_all);
        let a = alphabet_for(s, alpha);
        for seq in sequences(&a, d) {
            jobs.push((s, seq));
        }
    }
    let rot = (ctx.seed as usize) % jobs.len().max(1);
    jobs.rotate_left(rot);
    let vars = TxVar::all();
    let accs: Vec<Acc> = jobs
        .par_chunks(32)
        .map(|ch| {
            let mut a = Acc::new();
            for (s, seq) in ch {
                if ctx.over_budget() {
                    a.capped = true;
                    break;
                }
                let code = assemble(seq);
                for var in &vars {
                    let Some(case) = make_case(*s, *var, &code) else { continue };
                    let c2 = case.clone();
                    let _g = guard("transact", move || json!({"case": c2}));
                    let r = run_case(&case);
                    drop(_g);
                    a.evaluations += 1;
                    a.states += 1;
                    a.transitions += r.mon.step_count.max(1);
                    a.distinct(&(s, &r.o.class, &r.o.reason, r.o.gas_used, r.o.gas_refunded, r.o.logs.len()));
                    a.outcome(&format!("{:?}/{}", r.o.class, r.o.reason));
                    if a.samples.is_empty() && seq.len() >= 2 {
                        a.sample(|| json!({"spec": spec_name(*s), "tx": format!("{var:?}"), "program": format!("{seq:?}"), "code": hex::encode(&code), "result": format!("{:?}/{}", r.o.class, r.o.reason), "gas_used": r.o.gas_used}));
                    }
                    for (k, m) in f(&case, &r) {
                        a.violation(Violation { key: k, msg: format!("{s:?} {var:?} {seq:?}: {m}"), case: json!({"program": format!("{seq:?}"), "case": case}) });
                    }
                }
            }
            a
        })
        .collect();
    merge_all(accs)
}

pub fn replay_with(case: &Value, f: &dyn Fn(&TxCase, &Run) -> Vec<(String, String)>) -> Vec<Violation> {
    let c: TxCase = serde_json::from_value(case["case"].clone()).unwrap();
    let r = run_case(&c);
    f(&c, &r).into_iter().map(|(k, m)| Violation { key: k, msg: m, case: case.clone() }).collect()
}
