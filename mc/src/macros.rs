//! Macro-instruction alphabet for the E2 program enumerators: each macro pushes its own operands and
//! leaves the stack as it found it, so macros compose freely.
use crate::asm::{op, Asm};
use crate::world::*;
use revm::primitives::{address, Address, SpecId, U256};

pub const BOK: Address = address!("b0000000000000000000000000000000000000a1"); // returns one word
pub const BREV: Address = address!("b0000000000000000000000000000000000000a2"); // REVERT(0,32)
pub const BHALT: Address = address!("b0000000000000000000000000000000000000a3"); // INVALID
pub const BWRITE: Address = address!("b0000000000000000000000000000000000000a4"); // SSTORE(0,1); returns
pub const BSD: Address = address!("b0000000000000000000000000000000000000a5"); // SELFDESTRUCT(SENDER)
pub const BLOG: Address = address!("b0000000000000000000000000000000000000a6"); // LOG1
pub const BBURN: Address = address!("b0000000000000000000000000000000000000a7"); // burns all gas
pub const PROBE: Address = address!("b0000000000000000000000000000000000000a8"); // depth probe
pub const BRET64: Address = address!("b0000000000000000000000000000000000000a9"); // returns 64 bytes of 0xee..
pub const BNEST: Address = address!("b0000000000000000000000000000000000000aa"); // calls BWRITE then reverts
pub const BSDREV: Address = address!("b0000000000000000000000000000000000000ab"); // calls BSD (which self-destructs), then reverts
pub const BW1: Address = address!("b0000000000000000000000000000000000000ac"); // SSTORE(1, 7) (meant to be delegate-called)
pub const BSDSELF: Address = address!("b0000000000000000000000000000000000000ad"); // SELFDESTRUCT(ADDRESS), holds 5 wei
pub const BSDSELFREV: Address = address!("b0000000000000000000000000000000000000ae"); // calls BSDSELF, then reverts
pub const BLOGREV: Address = address!("b0000000000000000000000000000000000000af"); // LOG1, then REVERT
pub const ID: Address = address!("0000000000000000000000000000000000000004");
pub const ECREC: Address = address!("0000000000000000000000000000000000000001");

pub fn code_bok() -> Vec<u8> {
    Asm::new().push_u(0x2a).ret_top().build()
}
pub fn code_brev() -> Vec<u8> {
    Asm::new().push_u(0x2b).push_u(0).op(op::MSTORE).push_u(32).push_u(0).op(op::REVERT).build()
}
pub fn code_bhalt() -> Vec<u8> {
    vec![op::INVALID]
}
pub fn code_bwrite() -> Vec<u8> {
    Asm::new().sstore(0, 1).push_u(1).ret_top().build()
}
pub fn code_bsd() -> Vec<u8> {
    Asm::new().push_addr(SENDER).op(op::SELFDESTRUCT).build()
}
pub fn code_blog() -> Vec<u8> {
    Asm::new().push_u(7).push_u(0).push_u(0).op(0xa1).op(op::STOP).build()
}
pub fn code_bburn() -> Vec<u8> {
    Asm::new().op(op::JUMPDEST).push_u(0).op(op::JUMP).build()
}
pub fn code_bret64() -> Vec<u8> {
    Asm::new()
        .push(U256::from_be_bytes([0xee; 32]))
        .op(op::DUP1)
        .push_u(0)
        .op(op::MSTORE)
        .push_u(32)
        .op(op::MSTORE)
        .push_u(64)
        .push_u(0)
        .op(op::RETURN)
        .build()
}
pub fn code_bnest() -> Vec<u8> {
    Asm::new()
        .call(op::CALL, U256::from(100000), BWRITE, Some(U256::ZERO), 0, 0, 0, 0)
        .op(op::POP)
        .sstore(1, 1)
        .push_u(0)
        .push_u(0)
        .op(op::REVERT)
        .build()
}
pub fn code_bw1() -> Vec<u8> {
    Asm::new().sstore(1, 7).op(op::STOP).build()
}
pub fn code_bsdrev() -> Vec<u8> {
    Asm::new().call(op::CALL, U256::from(60000), BSD, Some(U256::ZERO), 0, 0, 0, 0).op(op::POP).push_u(0).push_u(0).op(op::REVERT).build()
}
pub fn code_blogrev() -> Vec<u8> {
    Asm::new().push_u(7).push_u(0).push_u(0).op(0xa1).push_u(0).push_u(0).op(op::REVERT).build()
}
pub fn code_bsdself() -> Vec<u8> {
    Asm::new().op(op::ADDRESS).op(op::SELFDESTRUCT).build()
}
pub fn code_bsdselfrev() -> Vec<u8> {
    Asm::new().call(op::CALL, U256::from(60000), BSDSELF, Some(U256::ZERO), 0, 0, 0, 0).op(op::POP).push_u(0).push_u(0).op(op::REVERT).build()
}
/// Calls itself with (almost) all gas; returns the number of nested calls that succeeded below it.
pub fn code_probe() -> Vec<u8> {
    Asm::new()
        .push_u(32)
        .push_u(0)
        .push_u(0)
        .push_u(0)
        .push_u(0)
        .op(op::ADDRESS)
        .push_u(2000)
        .op(op::GAS)
        .op(op::SUB)
        .op(op::CALL)
        .push_u(0)
        .op(op::MLOAD)
        .push_u(1)
        .op(op::ADD)
        .op(op::MUL)
        .ret_top()
        .build()
}

/// Standard callee world on top of `base_world()`. `A` is inserted by the caller.
pub fn std_world() -> Plain {
    let mut w = base_world();
    w.insert(BOK, PlainAcc::contract(&code_bok()));
    w.insert(BREV, PlainAcc::contract(&code_brev()));
    w.insert(BHALT, PlainAcc::contract(&code_bhalt()));
    w.insert(BWRITE, PlainAcc::contract(&code_bwrite()));
    w.insert(BSD, PlainAcc::contract(&code_bsd()).with_balance(U256::from(5)));
    w.insert(BLOG, PlainAcc::contract(&code_blog()));
    w.insert(BBURN, PlainAcc::contract(&code_bburn()));
    w.insert(PROBE, PlainAcc::contract(&code_probe()));
    w.insert(BRET64, PlainAcc::contract(&code_bret64()));
    w.insert(BNEST, PlainAcc::contract(&code_bnest()));
    w.insert(BSDREV, PlainAcc::contract(&code_bsdrev()));
    w.insert(BW1, PlainAcc::contract(&code_bw1()));
    w.insert(BLOGREV, PlainAcc::contract(&code_blogrev()));
    w.insert(BSDSELF, PlainAcc::contract(&code_bsdself()).with_balance(U256::from(5)));
    w.insert(BSDSELFREV, PlainAcc::contract(&code_bsdselfrev()));
    w.insert(RICH, PlainAcc { balance: U256::MAX, ..Default::default() });
    w.insert(DUST, PlainAcc::default());
    w.insert(STOR, PlainAcc::default().with_storage(1, 1));
    // the CREATE2 address of (A, OVF_SALT, Init::Empty) already holds 2^256-1: a creation with value
    // onto it is not a collision, its endowment overflows
    w.insert(create2_addr(A, OVF_SALT, &Init::Empty.code()), PlainAcc { balance: U256::MAX, ..Default::default() });
    w
}
pub const OVF_SALT: u64 = 7;
pub fn create2_addr(creator: Address, salt: u64, init_code: &[u8]) -> Address {
    creator.create2(revm::primitives::B256::from(U256::from(salt).to_be_bytes::<32>()), revm::primitives::keccak256(init_code))
}

#[derive(Clone, Copy, Debug, PartialEq, Eq, Hash)]
pub enum CallKind {
    Call,
    CallCode,
    DelegateCall,
    StaticCall,
}
impl CallKind {
    pub fn opcode(self) -> u8 {
        match self {
            CallKind::Call => op::CALL,
            CallKind::CallCode => op::CALLCODE,
            CallKind::DelegateCall => op::DELEGATECALL,
            CallKind::StaticCall => op::STATICCALL,
        }
    }
    pub fn since(self) -> SpecId {
        match self {
            CallKind::Call | CallKind::CallCode => SpecId::FRONTIER,
            CallKind::DelegateCall => SpecId::HOMESTEAD,
            CallKind::StaticCall => SpecId::BYZANTIUM,
        }
    }
    pub fn has_value(self) -> bool {
        matches!(self, CallKind::Call | CallKind::CallCode)
    }
}

#[derive(Clone, Copy, Debug, PartialEq, Eq, Hash)]
pub enum Init {
    /// returns empty code
    Empty,
    /// returns one byte of code (STOP)
    Code1,
    Revert,
    Halt,
    /// returns code starting with 0xEF
    Ef,
    /// SSTORE(0,1) then returns code
    Write,
    /// SLOAD(0) then reverts
    SloadRevert,
    /// self-destructs to SENDER during init
    SelfDestruct,
    /// SLOAD(0) then returns empty code
    SloadOk,
}
impl Init {
    pub fn code(self) -> Vec<u8> {
        match self {
            Init::Empty => vec![op::STOP],
            // MSTORE8(0, 0x00); RETURN(0,1)
            Init::Code1 => Asm::new().push_u(0).push_u(0).op(op::MSTORE8).push_u(1).push_u(0).op(op::RETURN).build(),
            Init::Revert => Asm::new().push_u(0).push_u(0).op(op::REVERT).build(),
            Init::Halt => vec![op::INVALID],
            Init::Ef => Asm::new().push_u(0xef).push_u(0).op(op::MSTORE8).push_u(1).push_u(0).op(op::RETURN).build(),
            Init::Write => Asm::new().sstore(0, 1).push_u(0).push_u(0).op(op::MSTORE8).push_u(1).push_u(0).op(op::RETURN).build(),
            Init::SloadRevert => Asm::new().push_u(0).op(op::SLOAD).op(op::POP).push_u(0).push_u(0).op(op::REVERT).build(),
            Init::SelfDestruct => Asm::new().push_addr(SENDER).op(op::SELFDESTRUCT).build(),
            Init::SloadOk => Asm::new().push_u(0).op(op::SLOAD).op(op::POP).op(op::STOP).build(),
        }
    }
}

#[derive(Clone, Copy, Debug, PartialEq, Eq, Hash)]
pub enum Mac {
    Call { kind: CallKind, to: Address, value: u64, gas: u64, out_len: u64 },
    Create { init: Init, value: u64 },
    Create2 { init: Init, value: u64, salt: u64 },
    Sstore(u64, u64),
    Sload(u64),
    Tstore(u64, u64),
    Tload(u64),
    Balance(Address),
    ExtCodeSize(Address),
    ExtCodeHash(Address),
    ExtCodeCopy(Address),
    Log(u8),
    Mstore(u64),
    Mstore8(u64),
    Mload(u64),
    Msize,
    Mcopy(u64, u64, u64),
    Keccak(u64),
    SelfDestruct(Address),
    SelfDestructSelf,
    Return(u64),
    Revert(u64),
    Invalid,
    Stop,
    /// SELFDESTRUCT with an empty stack
    SdBare,
    /// LOG1 with an empty stack
    LogBare,
    /// CALL with an explicit input length and return window
    CallWin { to: Address, in_len: u64, out_off: u64, out_len: u64 },
}

impl Mac {
    /// first spec where every opcode of the macro exists
    pub fn since(&self) -> SpecId {
        use SpecId::*;
        match self {
            Mac::Call { kind, .. } => kind.since(),
            Mac::Create2 { .. } | Mac::ExtCodeHash(_) => CONSTANTINOPLE,
            Mac::Tstore(..) | Mac::Tload(_) | Mac::Mcopy(..) => CANCUN,
            Mac::Revert(_) => BYZANTIUM,
            _ => FRONTIER,
        }
    }
    /// true if execution cannot continue past this macro
    pub fn terminal(&self) -> bool {
        matches!(self, Mac::SelfDestruct(_) | Mac::SelfDestructSelf | Mac::Return(_) | Mac::Revert(_) | Mac::Invalid | Mac::Stop | Mac::SdBare | Mac::LogBare)
    }
    pub fn emit(&self, a: Asm) -> Asm {
        match *self {
            Mac::Call { kind, to, value, gas, out_len } => {
                let v = if kind.has_value() { Some(U256::from(value)) } else { None };
                a.call(kind.opcode(), U256::from(gas), to, v, 0, 0, 0, out_len).op(op::POP)
            }
            Mac::Create { init, value } => a.create(U256::from(value), &init.code()).op(op::POP),
            Mac::Create2 { init, value, salt } => a.create2(U256::from(value), &init.code(), salt).op(op::POP),
            Mac::Sstore(k, v) => a.sstore(k, v),
            Mac::Sload(k) => a.push_u(k).op(op::SLOAD).op(op::POP),
            Mac::Tstore(k, v) => a.push_u(v).push_u(k).op(op::TSTORE),
            Mac::Tload(k) => a.push_u(k).op(op::TLOAD).op(op::POP),
            Mac::Balance(x) => a.push_addr(x).op(op::BALANCE).op(op::POP),
            Mac::ExtCodeSize(x) => a.push_addr(x).op(op::EXTCODESIZE).op(op::POP),
            Mac::ExtCodeHash(x) => a.push_addr(x).op(op::EXTCODEHASH).op(op::POP),
            Mac::ExtCodeCopy(x) => a.push_u(0).push_u(0).push_u(0).push_addr(x).op(op::EXTCODECOPY),
            Mac::Log(n) => {
                let mut a = a;
                for i in 0..n {
                    a = a.push_u(0x70 + i as u64);
                }
                a.push_u(1).push_u(0).op(op::LOG0 + n)
            }
            Mac::Mstore(off) => a.push_u(0x1122).push_u(off).op(op::MSTORE),
            Mac::Mstore8(off) => a.push_u(0x33).push_u(off).op(op::MSTORE8),
            Mac::Mload(off) => a.push_u(off).op(op::MLOAD).op(op::POP),
            Mac::Msize => a.op(op::MSIZE).op(op::POP),
            Mac::Mcopy(d, s, l) => a.push_u(l).push_u(s).push_u(d).op(op::MCOPY),
            Mac::Keccak(l) => a.push_u(l).push_u(0).op(op::KECCAK256).op(op::POP),
            Mac::SelfDestruct(x) => a.push_addr(x).op(op::SELFDESTRUCT),
            Mac::SelfDestructSelf => a.op(op::ADDRESS).op(op::SELFDESTRUCT),
            Mac::Return(l) => a.push_u(l).push_u(0).op(op::RETURN),
            Mac::Revert(l) => a.push_u(l).push_u(0).op(op::REVERT),
            Mac::Invalid => a.op(op::INVALID),
            Mac::Stop => a.op(op::STOP),
            Mac::SdBare => a.op(op::SELFDESTRUCT),
            Mac::LogBare => a.op(op::LOG0 + 1),
            Mac::CallWin { to, in_len, out_off, out_len } => a.call(op::CALL, U256::from(100_000), to, Some(U256::ZERO), 0, in_len, out_off, out_len).op(op::POP),
        }
    }
}

pub fn assemble(ms: &[Mac]) -> Vec<u8> {
    let mut a = Asm::new();
    for m in ms {
        a = m.emit(a);
    }
    a.build()
}

/// all sequences of length 0..=depth over `alpha`, skipping continuations after a terminal macro
pub fn sequences(alpha: &[Mac], depth: usize) -> Vec<Vec<Mac>> {
    let mut out: Vec<Vec<Mac>> = vec![vec![]];
    let mut frontier: Vec<Vec<Mac>> = vec![vec![]];
    for _ in 0..depth {
        let mut next = vec![];
        for s in &frontier {
            if s.last().map(|m| m.terminal()).unwrap_or(false) {
                continue;
            }
            for m in alpha {
                let mut t = s.clone();
                t.push(*m);
                next.push(t);
            }
        }
        out.extend(next.iter().cloned());
        frontier = next;
    }
    out
}
