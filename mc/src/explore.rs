//! E1: explicit-state breadth-first exploration of real objects.
//!
//! A state is the operation history that reaches it; the real object (usually not `Clone`) is
//! rebuilt by replaying the history on a fresh object. De-duplication is by a 128-bit hash of a
//! canonical projection; the search is level-synchronous BFS, so the first visit of a canonical
//! state has the largest remaining depth budget and de-duplication cannot hide behaviour within
//! the bound.
use crate::fw::{Acc, Ctx, Fnv, Violation};
use rayon::prelude::*;
use serde::{de::DeserializeOwned, Serialize};
use serde_json::{json, Value};
use std::collections::HashSet;
use std::fmt::Debug;
use std::hash::{Hash, Hasher};

pub struct Canon(Fnv, Fnv);
impl Canon {
    pub fn new() -> Self {
        Canon(Fnv(0xcbf29ce484222325), Fnv(0x9e3779b97f4a7c15))
    }
    pub fn add<T: Hash + ?Sized>(&mut self, t: &T) {
        t.hash(&mut self.0);
        t.hash(&mut self.1);
    }
    pub fn key(&self) -> u128 {
        ((self.0.finish() as u128) << 64) | (self.1.finish() as u128)
    }
}

pub trait Model: Sync {
    /// real object + reference model, stepped in lock-step
    type State;
    type Op: Clone + Send + Sync + Serialize + DeserializeOwned + Debug;
    fn name(&self) -> String;
    /// initial histories (each is replayed on `fresh()`); lets the search start from non-initial states
    fn inits(&self) -> Vec<Vec<Self::Op>>;
    fn fresh(&self) -> Self::State;
    fn enabled(&self, s: &Self::State) -> Vec<Self::Op>;
    /// apply to the real object and the reference, compare everything the property observes
    fn apply(&self, s: &mut Self::State, op: &Self::Op) -> Result<(), (String, String)>;
    fn canon(&self, s: &Self::State, c: &mut Canon);
    /// cheap copy of a state if the real object supports it (otherwise the history is replayed)
    fn clone_state(&self, _s: &Self::State) -> Option<Self::State> {
        None
    }
    /// coarse outcome signature of the last transition (for the diversity histogram)
    fn outcome(&self, _s: &Self::State, _op: &Self::Op) -> String {
        String::new()
    }
}

pub fn case_of<M: Model>(m: &M, hist: &[M::Op]) -> Value {
    json!({"model": m.name(), "history": hist})
}

/// Replay one explicit history; returns violations found (at most one: the first).
pub fn replay_history<M: Model>(m: &M, hist: &[M::Op]) -> Vec<Violation> {
    let r = crate::fw::catch(|| {
        let mut s = m.fresh();
        for (i, op) in hist.iter().enumerate() {
            if let Err((key, msg)) = m.apply(&mut s, op) {
                return Some((key, format!("at step {i} ({op:?}): {msg}")));
            }
        }
        None
    });
    match r {
        Ok(None) => vec![],
        Ok(Some((key, msg))) => vec![Violation {
            key,
            msg,
            case: case_of(m, hist),
        }],
        Err(p) => vec![Violation {
            key: "panic".into(),
            msg: format!("panic while replaying history: {p}"),
            case: case_of(m, hist),
        }],
    }
}

pub fn replay_value<M: Model>(m: &M, case: &Value) -> Vec<Violation> {
    let hist: Vec<M::Op> = match serde_json::from_value(case["history"].clone()) {
        Ok(h) => h,
        Err(e) => {
            eprintln!("MACHINERY: bad replay case: {e}");
            std::process::exit(2)
        }
    };
    replay_history(m, &hist)
}

fn rebuild<M: Model>(m: &M, hist: &[M::Op]) -> Option<M::State> {
    let mut s = m.fresh();
    for op in hist {
        if m.apply(&mut s, op).is_err() {
            return None;
        }
    }
    Some(s)
}

/// Explore all histories `init ++ ops` with |ops| <= depth. Returns the accumulator.
pub fn explore<M: Model>(m: &M, depth: usize, ctx: &Ctx) -> Acc {
    let mut acc = Acc::new();
    let mut seen: HashSet<u128> = HashSet::new();
    let mut frontier: Vec<Vec<M::Op>> = vec![];
    for init in m.inits() {
        match crate::fw::catch(|| {
            let mut s = m.fresh();
            for op in &init {
                if let Err(e) = m.apply(&mut s, op) {
                    return Err(e);
                }
            }
            let mut c = Canon::new();
            m.canon(&s, &mut c);
            Ok(c.key())
        }) {
            Ok(Ok(k)) => {
                if seen.insert(k) {
                    frontier.push(init);
                }
            }
            Ok(Err((key, msg))) => acc.violation(Violation {
                key,
                msg: format!("in initial history: {msg}"),
                case: case_of(m, &init),
            }),
            Err(p) => acc.violation(Violation {
                key: "panic".into(),
                msg: format!("panic in initial history: {p}"),
                case: case_of(m, &init),
            }),
        }
    }
    acc.states = frontier.len() as u64;
    for level in 0..depth {
        if frontier.is_empty() {
            break;
        }
        if ctx.over_budget() {
            acc.capped = true;
            acc.bump("levels_completed", level as u64);
            break;
        }
        struct Out<O> {
            next: Vec<(u128, Vec<O>)>,
            acc: Acc,
        }
        let mut next = vec![];
        let mut stop = false;
        // the frontier is processed in slices so that transient memory stays bounded
        for slice in frontier.chunks(200_000) {
            if ctx.over_budget() || crate::fw::rss_gb() > crate::fw::rss_cap_gb() {
                acc.capped = true;
                acc.bump("levels_completed", level as u64);
                stop = true;
                break;
            }
            let outs: Vec<Out<M::Op>> = slice
                .par_chunks(64.max(slice.len() / 512))
                .map(|chunk| {
                    let mut o = Out {
                        next: vec![],
                        acc: Acc::new(),
                    };
                    for hist in chunk {
                        let (base, ops) = match crate::fw::catch(|| {
                            rebuild(m, hist).map(|s| {
                                let ops = m.enabled(&s);
                                (s, ops)
                            })
                        }) {
                            Ok(Some(x)) => x,
                            _ => continue,
                        };
                        for op in ops {
                            let r = crate::fw::catch(|| {
                                let mut s = match m.clone_state(&base) {
                                    Some(s) => s,
                                    None => rebuild(m, hist).expect("prefix replays"),
                                };
                                let r = m.apply(&mut s, &op);
                                match r {
                                    Ok(()) => {
                                        let mut c = Canon::new();
                                        m.canon(&s, &mut c);
                                        Ok((c.key(), m.outcome(&s, &op)))
                                    }
                                    Err(e) => Err(e),
                                }
                            });
                            o.acc.transitions += 1;
                            let h2 = || {
                                let mut h2 = hist.clone();
                                h2.push(op.clone());
                                h2
                            };
                            match r {
                                Ok(Ok((k, out))) => {
                                    o.acc.outcome(&out);
                                    o.acc.distinct(&(k, &out));
                                    o.next.push((k, h2()));
                                }
                                Ok(Err((key, msg))) => o.acc.violation(Violation {
                                    key,
                                    msg,
                                    case: case_of(m, &h2()),
                                }),
                                Err(p) => o.acc.violation(Violation {
                                    key: "panic".into(),
                                    msg: format!("panic: {p}"),
                                    case: case_of(m, &h2()),
                                }),
                            }
                        }
                    }
                    o
                })
                .collect();
            for o in outs {
                acc.merge(o.acc);
                for (k, h) in o.next {
                    if seen.insert(k) {
                        if acc.samples.len() < 6 && (next.len() % 997 == 3 || level + 1 == depth) {
                            acc.samples.push(case_of(m, &h));
                        }
                        next.push(h);
                    }
                }
            }
        }
        if stop {
            acc.states += next.len() as u64;
            break;
        }
        acc.states += next.len() as u64;
        acc.bump(&format!("new_states_depth_{}", level + 1), next.len() as u64);
        frontier = next;
    }
    acc.evaluations = acc.transitions;
    // every transition steps the real object and the reference model in lock-step and compares them
    acc.traces = acc.transitions;
    acc
}
