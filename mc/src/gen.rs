//! Shared E2 case space: (spec, transaction variant, macro program) -> TxCase.
use crate::exec::*;
use crate::macros::*;
use crate::world::*;
use revm::primitives::{Address, Bytes, SpecId, B256, U256};

pub fn general_alphabet() -> Vec<Mac> {
    use CallKind::*;
    let c = |kind, to, value, gas| Mac::Call { kind, to, value, gas, out_len: 32 };
    vec![
        c(Call, BOK, 0, 50_000),
        c(Call, BOK, 1, 50_000),
        c(Call, BREV, 1, 50_000),
        c(Call, BHALT, 1, 20_000),
        c(Call, EMPTY, 1, 50_000),
        c(Call, EMPTY, 0, 50_000),
        c(Call, DUST, 0, 50_000),
        c(Call, RICH, 1, 50_000),
        c(Call, BOK, 1000, 50_000),
        c(Call, COINBASE, 1, 50_000),
        c(Call, ID, 1, 50_000),
        c(Call, BSD, 0, 50_000),
        c(Call, BNEST, 0, 100_000),
        c(Call, BSDREV, 0, 100_000),
        c(Call, BSDSELF, 0, 50_000),
        c(Call, BSDSELFREV, 0, 100_000),
        c(Call, BLOG, 0, 50_000),
        c(Call, BWRITE, 0, 0),
        c(Call, AUTH, 0, 50_000),
        c(CallCode, BOK, 1, 50_000),
        c(CallCode, BSD, 0, 50_000),
        c(DelegateCall, BWRITE, 0, 50_000),
        c(DelegateCall, BSD, 0, 50_000),
        c(DelegateCall, BW1, 0, 50_000),
        c(StaticCall, BWRITE, 0, 50_000),
        c(StaticCall, BOK, 0, 50_000),
        Mac::Create { init: Init::Empty, value: 0 },
        Mac::Create { init: Init::Code1, value: 1 },
        Mac::Create { init: Init::Revert, value: 1 },
        Mac::Create { init: Init::Halt, value: 0 },
        Mac::Create { init: Init::Write, value: 0 },
        Mac::Create { init: Init::SelfDestruct, value: 1 },
        Mac::Create { init: Init::Ef, value: 0 },
        Mac::Create { init: Init::Empty, value: 1000 },
        Mac::Create2 { init: Init::Code1, value: 0, salt: 0 },
        Mac::Create2 { init: Init::SelfDestruct, value: 1, salt: 1 },
        Mac::Create2 { init: Init::Empty, value: 1, salt: OVF_SALT },
        Mac::Sstore(0, 1),
        Mac::Sstore(0, 0),
        Mac::Sstore(1, 0),
        Mac::Sstore(1, 5),
        Mac::Sstore(1, 2),
        Mac::Sload(0),
        Mac::Sload(1),
        Mac::Tstore(0, 1),
        Mac::Tload(0),
        Mac::Log(1),
        Mac::Balance(EMPTY),
        Mac::Balance(RICH),
        Mac::ExtCodeSize(BOK),
        Mac::ExtCodeHash(DUST),
        Mac::ExtCodeCopy(BOK),
        Mac::Mstore(0),
        Mac::Mstore(1 << 14),
        Mac::Mstore(1 << 40),
        Mac::Mload(64),
        Mac::Msize,
        Mac::Mcopy(0, 32, 32),
        Mac::Keccak(32),
        Mac::SelfDestruct(BOK),
        Mac::SelfDestruct(EMPTY),
        Mac::SelfDestruct(RICH),
        Mac::SelfDestruct(SENDER),
        Mac::SelfDestruct(COINBASE),
        Mac::SelfDestructSelf,
        Mac::Return(1),
        Mac::Revert(1),
        Mac::Invalid,
        Mac::Stop,
    ]
}

#[derive(Clone, Copy, Debug, PartialEq, Eq, Hash)]
pub enum TxVar {
    Legacy,
    Value1,
    Eip1559,
    TightGas(u64),
    SenderIsCoinbase,
    NoReward,
    AccessList,
    Blob,
    CreateTx,
    SetCode,
    ZeroPrice,
    /// EIP-1559 transaction whose max fee caps the priority fee (base fee <= max fee < base fee + tip)
    Eip1559Capped,
    /// 40 bytes of calldata (EIP-7623 floor above the intrinsic gas from Prague)
    Calldata40,
    /// EIP-7702 authorization of an existing account (refund) with 1000 bytes of calldata, so that the
    /// EIP-7623 floor lies between gas spent and gas spent minus the refund
    SetCodeCalldata,
}
impl TxVar {
    pub fn since(self) -> SpecId {
        match self {
            TxVar::Eip1559 | TxVar::Eip1559Capped => SpecId::LONDON,
            TxVar::AccessList => SpecId::BERLIN,
            TxVar::Blob => SpecId::CANCUN,
            TxVar::SetCode | TxVar::SetCodeCalldata => SpecId::PRAGUE,
            _ => SpecId::FRONTIER,
        }
    }
    pub fn all() -> Vec<TxVar> {
        vec![
            TxVar::Legacy,
            TxVar::Value1,
            TxVar::Eip1559,
            TxVar::TightGas(300),
            TxVar::TightGas(30_000),
            TxVar::SenderIsCoinbase,
            TxVar::NoReward,
            TxVar::AccessList,
            TxVar::Blob,
            TxVar::CreateTx,
            TxVar::SetCode,
            TxVar::ZeroPrice,
            TxVar::Eip1559Capped,
            TxVar::Calldata40,
            TxVar::SetCodeCalldata,
        ]
    }
}

pub const BLOB_HASH: B256 = B256::new([
    0x01, 0xaa, 0xaa, 0xaa, 0xaa, 0xaa, 0xaa, 0xaa, 0xaa, 0xaa, 0xaa, 0xaa, 0xaa, 0xaa, 0xaa, 0xaa, 0xaa, 0xaa, 0xaa, 0xaa, 0xaa, 0xaa, 0xaa, 0xaa, 0xaa,
    0xaa, 0xaa, 0xaa, 0xaa, 0xaa, 0xaa, 0xaa,
]);

pub fn intrinsic_simple(spec: SpecId, data: &[u8], create: bool, al_addrs: u64, al_keys: u64, auths: u64) -> u64 {
    let z = data.iter().filter(|b| **b == 0).count() as u64;
    let nz = data.len() as u64 - z;
    let mut g = 21000 + 4 * z + nz * if spec.is_enabled_in(SpecId::ISTANBUL) { 16 } else { 68 };
    if create && spec.is_enabled_in(SpecId::HOMESTEAD) {
        g += 32000;
    }
    if spec.is_enabled_in(SpecId::BERLIN) {
        g += 2400 * al_addrs + 1900 * al_keys;
    }
    if create && spec.is_enabled_in(SpecId::SHANGHAI) {
        g += 2 * ((data.len() as u64 + 31) / 32);
    }
    if spec.is_enabled_in(SpecId::PRAGUE) {
        g += 25000 * auths;
    }
    g
}
pub fn floor_simple(spec: SpecId, data: &[u8]) -> u64 {
    if !spec.is_enabled_in(SpecId::PRAGUE) {
        return 0;
    }
    let z = data.iter().filter(|b| **b == 0).count() as u64;
    let nz = data.len() as u64 - z;
    21000 + 10 * (z + 4 * nz)
}

/// Build the case. Returns None if the variant does not exist in `spec`.
pub fn make_case(spec: SpecId, var: TxVar, code: &[u8]) -> Option<TxCase> {
    if !spec.is_enabled_in(var.since()) {
        return None;
    }
    let mut w = std_world();
    w.insert(A, PlainAcc::contract(code).with_balance(U256::from(10)).with_storage(1, 5));
    let mut c = TxCase::new(spec, w);
    c.tx.gas_limit = 1_000_000;
    c.tx.gas_price = U256::from(10);
    c.tx.nonce = Some(0);
    if spec.is_enabled_in(SpecId::LONDON) {
        c.block.basefee = U256::from(7);
    }
    match var {
        TxVar::Legacy => {}
        TxVar::ZeroPrice => {
            c.tx.gas_price = U256::ZERO;
            c.block.basefee = U256::ZERO;
        }
        TxVar::Value1 => c.tx.value = U256::from(1),
        TxVar::Eip1559 => {
            c.tx.gas_price = U256::from(20);
            c.tx.priority_fee = Some(U256::from(2));
        }
        TxVar::Eip1559Capped => {
            c.tx.gas_price = U256::from(9);
            c.tx.priority_fee = Some(U256::from(5));
        }
        TxVar::Calldata40 => {
            let mut d = vec![0x11u8; 40];
            d[3] = 0;
            c.tx.data = Bytes::from(d);
        }
        TxVar::TightGas(k) => c.tx.gas_limit = 21000 + k,
        TxVar::SenderIsCoinbase => c.block.coinbase = SENDER,
        TxVar::NoReward => c.reward = false,
        TxVar::AccessList => {
            c.tx.access_list = vec![(BOK, vec![]), (A, vec![U256::ZERO, U256::from(1)]), (EMPTY, vec![U256::from(3)])];
        }
        TxVar::Blob => {
            c.tx.blob_hashes = vec![BLOB_HASH];
            c.tx.max_fee_per_blob_gas = Some(U256::from(1000));
            c.block.excess_blob_gas = 10_000_000; // price > 1
        }
        TxVar::CreateTx => {
            c.tx.to = None;
            c.tx.data = Bytes::copy_from_slice(code);
            c.tx.value = U256::from(3);
        }
        TxVar::SetCode => {
            c.world.insert(AUTH, PlainAcc::eoa(100));
            c.tx.auth_list = Some(vec![AuthSpec { chain_id: 1, address: BWRITE, nonce: 0, authority: Some(AUTH) }]);
        }
        TxVar::SetCodeCalldata => {
            c.world.insert(AUTH, PlainAcc::eoa(100));
            c.tx.auth_list = Some(vec![AuthSpec { chain_id: 1, address: BWRITE, nonce: 0, authority: Some(AUTH) }]);
            c.tx.data = Bytes::from(vec![0x11u8; 1000]);
        }
    }
    Some(c)
}

pub fn alphabet_for(spec: SpecId, alpha: &[Mac]) -> Vec<Mac> {
    alpha.iter().filter(|m| spec.is_enabled_in(m.since())).cloned().collect()
}

pub fn addr_name(a: Address) -> String {
    let names = [
        (SENDER, "SENDER"), (COINBASE, "COINBASE"), (A, "A"), (BOK, "BOK"), (BREV, "BREV"), (BHALT, "BHALT"), (BWRITE, "BWRITE"), (BSD, "BSD"),
        (BLOG, "BLOG"), (BBURN, "BBURN"), (PROBE, "PROBE"), (BRET64, "BRET64"), (BNEST, "BNEST"), (BSDREV, "BSDREV"), (BSDSELF, "BSDSELF"), (BSDSELFREV, "BSDSELFREV"), (BLOGREV, "BLOGREV"), (BW1, "BW1"), (RICH, "RICH"), (DUST, "DUST"), (STOR, "STOR"),
        (EMPTY, "EMPTY"), (AUTH, "AUTH"),
    ];
    names.iter().find(|(x, _)| *x == a).map(|(_, n)| n.to_string()).unwrap_or_else(|| format!("{a}"))
}
