//! Framework: run context, accumulators, evidence / replay writers, known findings, exit protocol.
use serde_json::{json, Map, Value};
use std::collections::{BTreeMap, HashSet};
use std::hash::{Hash, Hasher};
use std::time::Instant;

#[derive(Clone, Copy, PartialEq, Eq, Debug)]
pub enum Tier {
    Quick,
    Thorough,
}
impl Tier {
    pub fn name(self) -> &'static str {
        match self {
            Tier::Quick => "quick",
            Tier::Thorough => "thorough",
        }
    }
    pub fn pick<T>(self, q: T, t: T) -> T {
        match self {
            Tier::Quick => q,
            Tier::Thorough => t,
        }
    }
}

pub struct Ctx {
    pub prop: String,
    pub tier: Tier,
    pub seed: u64,
    pub start: Instant,
    /// wall budget in seconds for the engines (cap; hitting it is reported)
    pub budget_s: f64,
}
impl Ctx {
    pub fn elapsed(&self) -> f64 {
        self.start.elapsed().as_secs_f64()
    }
    pub fn over_budget(&self) -> bool {
        self.elapsed() > self.budget_s
    }
}

#[derive(Clone, Debug)]
pub struct Violation {
    /// stable classification used to match known findings
    pub key: String,
    pub msg: String,
    /// explicit, self-contained case (replayable without the enumerator)
    pub case: Value,
}

pub fn h64<T: Hash + ?Sized>(t: &T) -> u64 {
    let mut h = Fnv(0xcbf29ce484222325);
    t.hash(&mut h);
    h.0
}
pub struct Fnv(pub u64);
impl Hasher for Fnv {
    fn finish(&self) -> u64 {
        self.0
    }
    fn write(&mut self, bytes: &[u8]) {
        for b in bytes {
            self.0 ^= *b as u64;
            self.0 = self.0.wrapping_mul(0x100000001b3);
        }
    }
}

/// Mergeable accumulator of what a (shard of a) run covered.
#[derive(Default)]
pub struct Acc {
    pub evaluations: u64,
    pub states: u64,
    pub transitions: u64,
    pub traces: u64,
    pub distinct: HashSet<u64>,
    pub outcomes: BTreeMap<String, u64>,
    pub samples: Vec<Value>,
    pub violations: Vec<Violation>,
    pub violation_count: u64,
    pub capped: bool,
    pub extra: BTreeMap<String, u64>,
}
pub const MAX_KEPT_VIOLATIONS: usize = 64;
impl Acc {
    pub fn new() -> Self {
        Self::default()
    }
    pub fn merge(&mut self, o: Acc) {
        self.evaluations += o.evaluations;
        self.states += o.states;
        self.transitions += o.transitions;
        self.traces += o.traces;
        self.distinct.extend(o.distinct);
        for (k, v) in o.outcomes {
            *self.outcomes.entry(k).or_default() += v;
        }
        for s in o.samples {
            if self.samples.len() < 8 {
                self.samples.push(s);
            }
        }
        for v in o.violations {
            self.push_violation_raw(v);
        }
        self.violation_count += o.violation_count;
        self.capped |= o.capped;
        for (k, v) in o.extra {
            *self.extra.entry(k).or_default() += v;
        }
    }
    fn push_violation_raw(&mut self, v: Violation) {
        // keep at most MAX per distinct key so that one noisy finding cannot hide another
        let same = self.violations.iter().filter(|x| x.key == v.key).count();
        if same < 3 && self.violations.len() < MAX_KEPT_VIOLATIONS {
            self.violations.push(v);
        }
    }
    pub fn violation(&mut self, v: Violation) {
        self.violation_count += 1;
        self.push_violation_raw(v);
    }
    pub fn outcome(&mut self, k: &str) {
        *self.outcomes.entry(k.to_string()).or_default() += 1;
    }
    pub fn outcome_n(&mut self, k: &str, n: u64) {
        *self.outcomes.entry(k.to_string()).or_default() += n;
    }
    pub fn bump(&mut self, k: &str, n: u64) {
        *self.extra.entry(k.to_string()).or_default() += n;
    }
    pub fn sample(&mut self, v: impl FnOnce() -> Value) {
        if self.samples.len() < 8 {
            self.samples.push(v());
        }
    }
    pub fn distinct<T: Hash + ?Sized>(&mut self, t: &T) {
        self.distinct.insert(h64(t));
    }
}

pub fn merge_all(accs: Vec<Acc>) -> Acc {
    let mut a = Acc::new();
    for x in accs {
        a.merge(x);
    }
    a
}

pub struct Meta {
    pub rule: String,
    pub assumptions: Vec<String>,
    pub bounds: Value,
    /// minimum number of distinct outcomes below which the run is considered vacuous (exit 2)
    pub min_distinct: u64,
    /// true if the enumerated finite space was covered completely (and no cap hit)
    pub exhaustive: bool,
    pub explanation: String,
}

#[derive(serde::Deserialize, Debug, Clone)]
pub struct KnownFinding {
    pub property: String,
    pub key: String,
    pub what: String,
}
#[derive(serde::Deserialize, Debug, Default)]
pub struct KnownFile {
    #[serde(default)]
    pub findings: Vec<KnownFinding>,
    #[serde(default)]
    pub fixed: Vec<String>,
}

pub fn verif_root() -> std::path::PathBuf {
    std::env::var("VERIF_ROOT")
        .map(Into::into)
        .unwrap_or_else(|_| "/verif".into())
}

pub fn load_known() -> KnownFile {
    let p = verif_root().join("known_findings.json");
    match std::fs::read_to_string(&p) {
        Ok(s) => serde_json::from_str(&s).unwrap_or_else(|e| {
            eprintln!("MACHINERY: cannot parse {}: {e}", p.display());
            std::process::exit(2)
        }),
        Err(_) => KnownFile::default(),
    }
}

/// Finish a run: write evidence, triage violations against known findings, print protocol lines,
/// return the exit code. `replay` re-executes one explicit case and returns the violations it shows.
pub fn finish(
    ctx: &Ctx,
    acc: Acc,
    meta: Meta,
    replay: &dyn Fn(&Value) -> Vec<Violation>,
) -> i32 {
    let known = load_known();
    let known: Vec<&KnownFinding> = known
        .findings
        .iter()
        .filter(|k| k.property == ctx.prop)
        .collect();
    let mut known_hit: BTreeMap<String, u64> = BTreeMap::new();
    let mut fresh: Vec<&Violation> = vec![];
    for v in &acc.violations {
        if let Some(k) = known.iter().find(|k| k.key == v.key) {
            *known_hit.entry(k.key.clone()).or_default() += 1;
        } else {
            fresh.push(v);
        }
    }
    let mut exit = 0;
    // replay determinism: every fresh violation must reproduce, twice, from its explicit case
    let mut replay_paths = vec![];
    let dir = verif_root().join("replays");
    let _ = std::fs::create_dir_all(&dir);
    for v in fresh.iter().take(8) {
        let r1 = replay(&v.case);
        let r2 = replay(&v.case);
        let k1: Vec<&String> = r1.iter().map(|x| &x.key).collect();
        let k2: Vec<&String> = r2.iter().map(|x| &x.key).collect();
        if k1 != k2 || !k1.contains(&&v.key) {
            eprintln!(
                "MACHINERY: replay divergence for property={} key={} first={:?} second={:?} case={}",
                ctx.prop, v.key, k1, k2, v.case
            );
            exit = 2;
            continue;
        }
        let path = dir.join(format!("{}-{:016x}.json", ctx.prop, h64(&v.case.to_string())));
        let body = json!({"property": ctx.prop, "key": v.key, "message": v.msg, "case": v.case});
        std::fs::write(&path, serde_json::to_string_pretty(&body).unwrap()).unwrap();
        replay_paths.push((path, v));
    }
    for k in &known {
        if known_hit.contains_key(&k.key) {
            println!("KNOWN-FINDING: property={} {} [{}]", ctx.prop, k.what, k.key);
        }
    }
    for (p, v) in &replay_paths {
        println!("VIOLATION property={} replay={}", ctx.prop, p.display());
        println!("  key={} :: {}", v.key, v.msg);
        if exit == 0 {
            exit = 1;
        }
    }
    let distinct = acc.distinct.len() as u64;
    if exit == 0 && distinct < meta.min_distinct {
        eprintln!(
            "MACHINERY: vacuous exploration for {}: {} distinct outcomes < floor {}",
            ctx.prop, distinct, meta.min_distinct
        );
        exit = 2;
    }
    let exhaustive = meta.exhaustive && !acc.capped;
    let mut cov = Map::new();
    cov.insert("states".into(), json!(acc.states.max(1)));
    cov.insert("transitions".into(), json!(acc.transitions.max(1)));
    cov.insert("traces_validated_against_impl".into(), json!(acc.traces));
    cov.insert("evaluations".into(), json!(acc.evaluations.max(1)));
    cov.insert("distinct_nontrivial".into(), json!(distinct));
    cov.insert("rule".into(), json!(meta.rule));
    let samples = if acc.samples.is_empty() {
        vec![json!("no sample recorded")]
    } else {
        acc.samples.clone()
    };
    cov.insert("samples".into(), json!(samples));
    cov.insert("exhaustive".into(), json!(exhaustive));
    cov.insert("cap_hit".into(), json!(acc.capped));
    cov.insert("bounds".into(), meta.bounds.clone());
    cov.insert("outcome_histogram".into(), json!(acc.outcomes));
    cov.insert("counters".into(), json!(acc.extra));
    cov.insert("explanation".into(), json!(meta.explanation));
    cov.insert(
        "known_findings_hit".into(),
        json!(known_hit.keys().collect::<Vec<_>>()),
    );
    let ev = json!({
        "property_id": ctx.prop,
        "tier": ctx.tier.name(),
        "seed": ctx.seed,
        "level": "model_checking",
        "coverage": Value::Object(cov),
        "assumptions": meta.assumptions,
        "wall_s": ctx.elapsed(),
        "violations": fresh.len(),
        "violations_total_including_known": acc.violation_count,
    });
    let evdir = verif_root().join("evidence");
    let _ = std::fs::create_dir_all(&evdir);
    std::fs::write(
        evdir.join(format!("{}.json", std::env::var("VERIF_EVIDENCE_NAME").unwrap_or_else(|_| ctx.prop.clone()))),
        serde_json::to_string_pretty(&ev).unwrap(),
    )
    .unwrap();
    println!(
        "{} {}: states={} transitions={} evaluations={} distinct={} exhaustive={} violations={} known={} wall={:.1}s",
        ctx.prop,
        ctx.tier.name(),
        acc.states,
        acc.transitions,
        acc.evaluations,
        distinct,
        exhaustive,
        fresh.len(),
        known_hit.len(),
        ctx.elapsed()
    );
    exit
}

/// Run one replay file: print what it shows. Exit 1 if the violation reproduces, 0 otherwise.
pub fn run_replay(prop: &str, path: &str, replay: &dyn Fn(&Value) -> Vec<Violation>) -> i32 {
    let s = std::fs::read_to_string(path).unwrap_or_else(|e| {
        eprintln!("MACHINERY: cannot read {path}: {e}");
        std::process::exit(2)
    });
    let v: Value = serde_json::from_str(&s).unwrap();
    let case = v.get("case").cloned().unwrap_or(v.clone());
    let r = replay(&case);
    if r.is_empty() {
        println!("replay {path}: property {prop} holds on this case");
        0
    } else {
        for x in &r {
            println!("VIOLATION property={prop} replay={path}");
            println!("  key={} :: {}", x.key, x.msg);
        }
        1
    }
}

/// Run `f` catching panics; returns Err(message) on panic.
pub fn catch<T>(f: impl FnOnce() -> T) -> Result<T, String> {
    match std::panic::catch_unwind(std::panic::AssertUnwindSafe(f)) {
        Ok(v) => Ok(v),
        Err(e) => Err(if let Some(s) = e.downcast_ref::<&str>() {
            s.to_string()
        } else if let Some(s) = e.downcast_ref::<String>() {
            s.clone()
        } else {
            "panic".to_string()
        }),
    }
}

pub fn silence_panics() {
    std::panic::set_hook(Box::new(|_| {}));
}

// ---------------------------------------------------------------------------------------------
// Watchdog: a subject call that does not return is reported as a violation for the case that was
// running (the call cannot be interrupted, so the process exits after reporting).
use std::sync::{Arc, Mutex};
type Slot = Arc<Mutex<Option<(Instant, String, Box<dyn FnOnce() -> Value + Send>)>>>;
static SLOTS: Mutex<Vec<Slot>> = Mutex::new(Vec::new());
thread_local! {
    static MY_SLOT: Slot = {
        let s: Slot = Arc::new(Mutex::new(None));
        SLOTS.lock().unwrap().push(s.clone());
        s
    };
}

pub struct Guard;
impl Drop for Guard {
    fn drop(&mut self) {
        MY_SLOT.with(|s| {
            if let Ok(mut g) = s.lock() {
                *g = None;
            }
        });
    }
}
/// Register the case the current thread is about to run on the subject. The closure is only
/// evaluated if the watchdog fires.
pub fn guard(key: &str, case: impl FnOnce() -> Value + Send + 'static) -> Guard {
    MY_SLOT.with(|s| {
        if let Ok(mut g) = s.lock() {
            *g = Some((Instant::now(), key.to_string(), Box::new(case)));
        }
    });
    Guard
}
pub fn start_watchdog(prop: String, limit_s: f64) {
    std::thread::spawn(move || loop {
        std::thread::sleep(std::time::Duration::from_millis(500));
        let slots: Vec<Slot> = SLOTS.lock().unwrap().clone();
        let mut hit = None;
        for s in slots {
            let mut g = s.lock().unwrap();
            if g.as_ref().map(|(t, _, _)| t.elapsed().as_secs_f64() > limit_s).unwrap_or(false) {
                hit = g.take();
                break;
            }
        }
        if let Some((_, key, case)) = hit {
            let cv = case();
            let dir = verif_root().join("replays");
            let _ = std::fs::create_dir_all(&dir);
            let path = dir.join(format!("{}-{:016x}.json", prop, h64(&cv.to_string())));
            let kkey = format!("{key}:no-termination");
            let body = json!({"property": prop, "key": kkey, "message": format!("subject call did not return within {limit_s} s"), "case": cv});
            let _ = std::fs::write(&path, serde_json::to_string_pretty(&body).unwrap());
            let known = load_known();
            if let Some(k) = known.findings.iter().find(|k| k.property == prop && k.key == kkey) {
                println!("KNOWN-FINDING: property={} {} [{}]", prop, k.what, k.key);
                println!("MACHINERY: run aborted after a non-terminating known finding; no further coverage");
                std::process::exit(2);
            }
            println!("VIOLATION property={} replay={}", prop, path.display());
            println!("  key={kkey} :: subject call did not return within {limit_s} s");
            std::process::exit(1);
        }
    });
}

/// resident set size of this process in GiB (0 if unknown)
pub fn rss_gb() -> f64 {
    std::fs::read_to_string("/proc/self/statm")
        .ok()
        .and_then(|s| s.split_whitespace().nth(1).and_then(|x| x.parse::<f64>().ok()))
        .map(|pages| pages * 4096.0 / (1u64 << 30) as f64)
        .unwrap_or(0.0)
}
pub fn rss_cap_gb() -> f64 {
    std::env::var("VERIF_RSS_CAP_GB").ok().and_then(|s| s.parse().ok()).unwrap_or(20.0)
}

/// the first region where two renderings differ, with a little context (for readable messages)
pub fn first_diff(a: &str, b: &str) -> String {
    let ab = a.as_bytes();
    let bb = b.as_bytes();
    let mut i = 0;
    while i < ab.len() && i < bb.len() && ab[i] == bb[i] {
        i += 1;
    }
    let cut = |s: &str| -> String {
        let mut lo = i.saturating_sub(160);
        while !s.is_char_boundary(lo) {
            lo -= 1;
        }
        let mut hi = (i + 160).min(s.len());
        while !s.is_char_boundary(hi) {
            hi += 1;
        }
        s[lo..hi].to_string()
    };
    format!("at byte {i}: «{}» vs «{}»", cut(a), cut(b))
}
