#!/bin/bash
# MANIFEST.setup_cmd: offline build of every harness variant from files on disk.
set -eu
ROOT="$(cd "$(dirname "$0")" && pwd)"
export CARGO_NET_OFFLINE=true
mkdir -p "$ROOT/target" "$ROOT/evidence" "$ROOT/replays"
for v in main alt op; do
  echo "building variant $v"
  (cd "$ROOT/mc" && CARGO_TARGET_DIR="$ROOT/target/$v" cargo build --release --offline \
     --no-default-features --features "$v" 2>&1 | tail -3)
done
