#!/usr/bin/env python3
"""Regenerates the generated tables of DESIGN.md (seeded changes, measured quick-tier cost)."""
import json, glob, os, re, subprocess
ROOT=os.path.dirname(os.path.dirname(os.path.abspath(__file__)))
p=os.path.join(ROOT,'DESIGN.md'); s=open(p).read()
seed=subprocess.check_output(['python3',os.path.join(ROOT,'tools','gen_seed_table.py')]).decode()
rows=['| check | wall s | states | transitions | evaluations | distinct | exhaustive | known findings hit |','|---|---|---|---|---|---|---|---|']
for f in sorted(glob.glob(os.path.join(ROOT,'evidence','C??.json'))):
    e=json.load(open(f)); c=e['coverage']
    rows.append('| %s (%s) | %.1f | %d | %d | %d | %d | %s | %d |'%(e['property_id'],e['tier'],e['wall_s'],c['states'],c['transitions'],c['evaluations'],c['distinct_nontrivial'],c['exhaustive'],len(c.get('known_findings_hit',[]))))
cost='\n'.join(rows)
def put(s,tag,body):
    b,e='<!-- %s_BEGIN -->'%tag,'<!-- %s_END -->'%tag
    if tag+'_PLACEHOLDER' in s:
        return s.replace(tag+'_PLACEHOLDER', b+'\n'+body+'\n'+e)
    i,j=s.index(b),s.index(e)
    return s[:i]+b+'\n'+body+'\n'+s[j:]
s=put(s,'SEED_TABLE',seed.strip()); s=put(s,'COST_TABLE',cost)
open(p,'w').write(s)
print('ok')
