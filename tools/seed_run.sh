#!/bin/bash
# tools/seed_run.sh <seed-id> <check>...: apply /verif/seeded/<seed-id>/patch.diff to /repo, run the given checks
# (quick, or "Cxx:thorough"), undo the change, and record the verdicts in the seed's meta.json.
set -u
id="$1"; shift
d="/verif/seeded/$id"
cd /verif
if [ -n "$(git -C /repo status --short)" ]; then echo "/repo not clean"; exit 2; fi
git -C /repo apply "$d/patch.diff" || { echo "patch does not apply"; exit 2; }
trap 'git -C /repo checkout -- . ; git -C /repo status --short' EXIT
for c in "$@"; do
  p="${c%%:*}"; t="quick"; [[ "$c" == *:* ]] && t="${c##*:}"
  out=$(VERIF_BUDGET_S=${VERIF_BUDGET_S:-300} ./check "$p" "$t" 2>&1); rc=$?
  first=$(echo "$out" | grep -m1 -A1 "^VIOLATION" | tail -1 | cut -c1-300)
  nv=$(echo "$out" | grep -c "^VIOLATION")
  echo "[$id] $p $t: exit=$rc violations_printed=$nv :: $first"
  python3 - "$d/meta.json" "$p" "$t" "$rc" "$nv" "$first" <<'PY'
import json,sys
f,p,t,rc,nv,first=sys.argv[1:]
m=json.load(open(f))
m["runs"]=[r for r in m.get("runs",[]) if not (r["check"]==p and r["tier"]==t)]
m["runs"].append({"check":p,"tier":t,"exit":int(rc),"violation_lines":int(nv),"first":first})
m["detected_by"]=sorted({r["check"]+":"+r["tier"] for r in m["runs"] if r["exit"]==1})
json.dump(m,open(f,'w'),indent=1)
PY
done
