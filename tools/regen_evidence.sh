#!/bin/bash
# Re-runs every claimed quick check on the current (unchanged) /repo tree so that the committed evidence
# comes from /verif run against /repo itself; refuses to run with local changes in /repo.
cd "$(dirname "$0")/.."
if [ -n "$(git -C /repo status --short)" ]; then echo "/repo has local changes"; exit 2; fi
fail=0
for p in $(python3 -c "import json;print(' '.join(c['property_id'] for c in json.load(open('MANIFEST.json'))['checks']))"); do
  out=$(./check $p quick 2>&1); rc=$?
  echo "$p rc=$rc $(echo "$out" | grep -E "^$p quick" | tail -1 | cut -c1-160)"
  [ $rc -ne 0 ] && fail=1 && echo "$out" | grep -E "VIOLATION|MACHINERY" | head -3
done
python3 tools/fill_design.py
exit $fail
