#!/bin/bash
# Runs the repository's own test suite (guard off) in the given tree (default /repo); prints pass/fail totals.
dir="${1:-/repo}"
cd "$dir" && cargo test --workspace --no-fail-fast --offline 2>&1 | awk '/^test result/ {p+=$4; f+=$6} /^test .* FAILED/ {print} END {print "passed=" p " failed=" f; exit (f>0)}'
