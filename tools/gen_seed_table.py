#!/usr/bin/env python3
"""Prints the markdown table of seeded changes (DESIGN.md section 8) from seeded/*/meta.json."""
import json, glob, os, re
rows=[]
for d in sorted(glob.glob(os.path.join(os.path.dirname(__file__),'..','seeded','*'))):
    m=json.load(open(os.path.join(d,'meta.json')))
    sid=os.path.basename(d)
    summ=(m.get('summary') or '').strip().replace('\n',' ').replace('|','/')
    summ=re.sub(r'\s+',' ',summ)
    if len(summ)>230: summ=summ[:227]+'...'
    det=[r for r in m.get('runs',[]) if r['exit']==1]
    miss=[r for r in m.get('runs',[]) if r['exit']==0]
    first=''
    if det:
        f=det[0]['first']; f=f.split('::')[0].replace('key=','').strip()
        first=f
    rows.append((sid,m['property'],summ,', '.join(sorted({r['check'] for r in det})) or '-', ', '.join(sorted({r['check'] for r in miss if r['check'] not in {x['check'] for x in det}})) or '-', first))
print('| seed | property | change (agent summary, shortened) | detected by (quick tier) | also run, silent | first violation key |')
print('|---|---|---|---|---|---|')
for r in rows: print('| %s | %s | %s | %s | %s | `%s` |'%r)
