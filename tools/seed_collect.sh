#!/bin/bash
# tools/seed_collect.sh <prop> <n> [offset]: copy an agent's verified change from /tmp/wt/<prop>/_out/<n> into /verif/seeded/<prop>-<n>/
P="$1"; N="$2"; OFF="${3:-0}"; src="/tmp/wt/$P/_out/$N"; dst="/verif/seeded/$P-$((N+OFF))"
mkdir -p "$dst"
cp "$src/patch.diff" "$dst/patch.diff"
cp "$src/demo.rs" "$dst/demo.rs"
cp "$src/demo_path.txt" "$dst/demo_path.txt"
python3 - "$P" "$N" "$src" "$dst" <<'PY'
import json,sys
P,N,src,dst=sys.argv[1:]
try: m=json.load(open(src+'/meta.json'))
except Exception as e: m={"summary":"(agent meta unreadable: %s)"%e}
out={"property":P,"summary":m.get("summary"),"needs":m.get("needs"),
 "confirmed_by":"tools/seed_verify.sh in the agent's scratch worktree: demo passes without the change; with the change the repository suite (cargo test --workspace --no-fail-fast --offline) passes 131/131 (130 + doctest) and the demo fails",
 "agent_meta":m,"detected_by":[], "runs":[]}
json.dump(out,open(dst+'/meta.json','w'),indent=1)
PY
