#!/bin/bash
# tools/seed_verify.sh <worktree> <n>: confirm a seeded change in its scratch worktree:
#   suite passes with the change, demo fails with it, demo passes without it.
set -u
WT="$1"; N="$2"; O="$WT/_out/$N"
cd "$WT" || exit 2
git checkout -q -- . 2>/dev/null
demo_rel=$(grep -oE "(crates|bins)/[A-Za-z0-9_/.-]+\.rs" "$O/demo_path.txt" | head -1)
[ -f "$demo_rel" ] || { mkdir -p "$(dirname "$demo_rel")"; cp "$O/demo.rs" "$demo_rel"; }
tname=$(basename "$demo_rel" .rs)
pkgdir=$(echo "$demo_rel" | sed -E 's#/tests/.*##')
pkg=$(grep -m1 '^name' "$pkgdir/Cargo.toml" | sed -E 's/.*"(.*)".*/\1/')
run_demo() { cargo test --workspace --offline --test "$tname" 2>&1 | grep -E "^test result|^test .* FAILED" | tail -4; }
echo "== demo WITHOUT change"; run_demo
git apply "$O/patch.diff" || { echo "patch does not apply"; exit 2; }
echo "== suite WITH change (excluding seeded demos)"
cargo test --workspace --no-fail-fast --offline 2>&1 | awk '/Running/ {cur=$0} /^test result/ {if (cur !~ /seeded_demo/) {p+=$4; f+=$6}} END {print "passed=" p " failed=" f}'
echo "== demo WITH change"; run_demo
git apply -R "$O/patch.diff"
git status --short | grep -v "_out\|seeded_demo" | head
