#!/usr/bin/env python3
"""Regenerates /verif/MANIFEST.json from the table below (kept valid at all times)."""
import json, os, sys
ROOT = os.path.dirname(os.path.dirname(os.path.abspath(__file__)))
props = [json.loads(l) for l in open(os.path.join(ROOT, "properties.jsonl"))]
ids = [p["id"] for p in props]

# id -> (engine, technique, level text, level note, design ref)
CLAIMED = {}
def claim(pid, engine, technique, text, note, ref):
    CLAIMED[pid] = dict(engine=engine, technique=technique, text=text, note=note, ref=ref)

exec(open(os.path.join(ROOT, "tools", "claims.py")).read())

checks = []
for pid in ids:
    if pid not in CLAIMED:
        continue
    c = CLAIMED[pid]
    checks.append({
        "property_id": pid,
        "quick_cmd": f"./check {pid} quick",
        "thorough_cmd": f"./check {pid} thorough",
        "evidence_file": f"/verif/evidence/{pid}.json",
        "replay_cmd_template": f"./check {pid} quick --replay {{path}}",
        "engine": c["engine"],
        "level_claimed": {"category": "model_checking", "text": c["text"], "design_ref": c["ref"]},
        "level_note": c["note"],
        "technique": c["technique"],
    })
NA = json.load(open(os.path.join(ROOT, "tools", "not_applicable.json")))
na = [{"property_id": pid, "reason": NA.get(pid, "check not built yet in this round; see DESIGN.md section 4 for the planned bounded-exhaustive formulation")}
      for pid in ids if pid not in CLAIMED]
manifest = {
    "version": 1,
    "setup_cmd": "./setup.sh",
    "hooks": {
        "guard": "risechain_revm_verif",
        "enable": "RUSTFLAGS='--cfg risechain_revm_verif' (no source hook is currently needed: all monitors attach through revm's public handler registers / instruction tables; see DESIGN.md 3.6)",
        "baseline_off_cmd": "cd /repo && cargo nextest run --workspace --no-fail-fast --test-threads 8 --offline || (cd /repo && cargo test --workspace --no-fail-fast --offline)",
        "source_commits": json.load(open(os.path.join(ROOT, "tools", "hook_commits.json"))),
        "add_only": True,
    },
    "engines": [
        {"name": "E1", "path": "mc/src/explore.rs", "kind_free_text": "explicit-state BFS over operation histories of real revm objects with a lock-step reference model",
         "serves_properties": [p for p in ids if CLAIMED.get(p, {}).get("engine") == "E1"]},
        {"name": "E2", "path": "mc/src/gen.rs", "kind_free_text": "bounded-exhaustive enumeration of programs/transactions/configurations executed on the real EVM",
         "serves_properties": [p for p in ids if CLAIMED.get(p, {}).get("engine") == "E2"]},
        {"name": "E3", "path": "mc/src/lattice.rs", "kind_free_text": "exhaustive argument lattices for pure functions against unbounded-integer definitions",
         "serves_properties": [p for p in ids if CLAIMED.get(p, {}).get("engine") == "E3"]},
    ],
    "checks": checks,
    "not_applicable": na,
    "notes": "All checks are bounded-exhaustive (model-checking family); see DESIGN.md. known_findings.json lists recorded findings and fixed entries.",
}
json.dump(manifest, open(os.path.join(ROOT, "MANIFEST.json"), "w"), indent=1)
print(f"claimed {len(checks)} / {len(ids)}; not_applicable {len(na)}")
