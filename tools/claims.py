claim("C12", "E1", "explicit-state BFS over real Stack operation histories vs Vec model; complete push_slice length sweep",
      "Every operation sequence up to depth 4 (quick) / 5 (thorough) over a 50-operation alphabet from 9 initial stack sizes is executed on the real Stack and compared with a Vec<U256> LIFO model after every step; push_slice is swept over every length 0..=32801.",
      "Bounded depth and value alphabet; ruint U256 equality trusted; dup(0)/exchange(_,0) excluded (documented precondition).", "4/C12")
claim("C13", "E1", "explicit-state BFS over real Gas operation histories vs i128 model",
      "Every sequence up to depth 6/8 of record_cost/child-frame/record_refund/spend_all/set_final_refund/set_spent/set_refund from 8 limits is run on the real Gas and compared with an i128 model and the meter invariants after every step.",
      "erase_cost is only used to return gas previously charged (frame accounting contract); refunds inside i64.", "4/C13")
claim("C06", "E1", "explicit-state BFS over real JournaledState histories; snapshot-stack oracle on every revert/commit",
      "Every history up to depth 4 (quick) / 5 (thorough) of load/touch/transfer/inc_nonce/sload/sstore/tstore/log/selfdestruct/create-account/set_code with up to 3 nested checkpoints, on 4 specs and 3 initial histories (incl. access-list and pre-warmed entries, a 2^256-1 balance), is executed on the real JournaledState; each revert is compared with a snapshot of the full observable projection taken at its checkpoint.",
      "Operations follow EvmContext's calling contract (accounts loaded before use, LIFO checkpoints, no second creation of one address before Spurious Dragon); address 0x03 touch quirk excluded; self-destruct with overflowing beneficiary not driven (C08).", "4/C06")
