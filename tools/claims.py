claim("C12", "E1", "explicit-state BFS over real Stack operation histories vs Vec model; complete push_slice length sweep",
      "Every operation sequence up to depth 4 (quick) / 5 (thorough) over a 50-operation alphabet from 9 initial stack sizes is executed on the real Stack and compared with a Vec<U256> LIFO model after every step; push_slice is swept over every length 0..=32801.",
      "Bounded depth and value alphabet; ruint U256 equality trusted; dup(0)/exchange(_,0) excluded (documented precondition).", "4/C12")
claim("C13", "E1", "explicit-state BFS over real Gas operation histories vs i128 model",
      "Every sequence up to depth 6/8 of record_cost/child-frame/record_refund/spend_all/set_final_refund/set_spent/set_refund from 8 limits is run on the real Gas and compared with an i128 model and the meter invariants after every step.",
      "erase_cost is only used to return gas previously charged (frame accounting contract); refunds inside i64.", "4/C13")
