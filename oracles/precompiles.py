#!/usr/bin/env python3
"""Reference definitions of the precompiled contracts, written from the EIPs / RFCs with Python's
unbounded integers and hashlib, and the enumerated input lattices of C23 / C24.

Usage: precompiles.py quick|thorough  -> JSON lines on stdout:
  {"addr": n, "forks": [...], "input": hex, "expect": {"ok": {"gas": g, "out": hex}} |
                                                      {"ok_any": {"gas": g, "len": n}} | {"err": 1}, "note": str}
`forks` are PrecompileSpecId names (HOMESTEAD, BYZANTIUM, ISTANBUL, BERLIN, CANCUN, PRAGUE).
Nothing here imports or reads revm.
"""
import hashlib, json, sys

TIER = sys.argv[1] if len(sys.argv) > 1 else "quick"
ALL = ["HOMESTEAD", "BYZANTIUM", "ISTANBUL", "BERLIN", "CANCUN", "PRAGUE"]
def since(f): return ALL[ALL.index(f):]
OUT = []
def emit(addr, forks, inp, expect, note=""):
    OUT.append({"addr": addr, "forks": forks, "input": inp.hex(), "expect": expect, "note": note})
def ok(gas, out): return {"ok": {"gas": gas, "out": out.hex()}}
def ok_any(gas, n): return {"ok_any": {"gas": gas, "len": n}}
ERR = {"err": 1}
def b32(x): return x.to_bytes(32, "big")
def words(n): return (n + 31) // 32

# ------------------------------------------------------------------ keccak-256 (for addresses)
RC = [0x0000000000000001, 0x0000000000008082, 0x800000000000808A, 0x8000000080008000, 0x000000000000808B, 0x0000000080000001,
      0x8000000080008081, 0x8000000000008009, 0x000000000000008A, 0x0000000000000088, 0x0000000080008009, 0x000000008000000A,
      0x000000008000808B, 0x800000000000008B, 0x8000000000008089, 0x8000000000008003, 0x8000000000008002, 0x8000000000000080,
      0x000000000000800A, 0x800000008000000A, 0x8000000080008081, 0x8000000000008080, 0x0000000080000001, 0x8000000080008008]
ROT = [[0, 36, 3, 41, 18], [1, 44, 10, 45, 2], [62, 6, 43, 15, 61], [28, 55, 25, 21, 56], [27, 20, 39, 8, 14]]
M64 = (1 << 64) - 1
def rol(x, n): return ((x << n) | (x >> (64 - n))) & M64 if n else x
def keccak_f(A):
    for rnd in range(24):
        C = [A[x][0] ^ A[x][1] ^ A[x][2] ^ A[x][3] ^ A[x][4] for x in range(5)]
        D = [C[(x - 1) % 5] ^ rol(C[(x + 1) % 5], 1) for x in range(5)]
        A = [[A[x][y] ^ D[x] for y in range(5)] for x in range(5)]
        B = [[0] * 5 for _ in range(5)]
        for x in range(5):
            for y in range(5):
                B[y][(2 * x + 3 * y) % 5] = rol(A[x][y], ROT[x][y])
        A = [[B[x][y] ^ ((~B[(x + 1) % 5][y]) & B[(x + 2) % 5][y]) for y in range(5)] for x in range(5)]
        A[0][0] ^= RC[rnd]
    return A
def keccak256(data):
    rate = 136
    p = bytearray(data)
    p.append(0x01)
    while len(p) % rate: p.append(0)
    p[-1] |= 0x80
    A = [[0] * 5 for _ in range(5)]
    for off in range(0, len(p), rate):
        for i in range(rate // 8):
            A[i % 5][i // 5] ^= int.from_bytes(p[off + 8 * i: off + 8 * i + 8], "little")
        A = keccak_f(A)
    out = b""
    for i in range(4):
        out += A[i % 5][i // 5].to_bytes(8, "little")
    return out
assert keccak256(b"").hex() == "c5d2460186f7233c927e7db2dcc703c0e500b653ca82273b7bfad8045d85a470"

# ------------------------------------------------------------------ generic short-Weierstrass arithmetic over F_p (a = 0)
def inv(a, m): return pow(a % m, -1, m)
class Curve:
    def __init__(s, p, b, n): s.p, s.b, s.n = p, b, n
    def on(s, P): return P is None or (P[1] * P[1] - P[0] ** 3 - s.b) % s.p == 0
    def add(s, P, Q):
        if P is None: return Q
        if Q is None: return P
        p = s.p
        if P[0] == Q[0]:
            if (P[1] + Q[1]) % p == 0: return None
            l = 3 * P[0] * P[0] * inv(2 * P[1], p) % p
        else:
            l = (Q[1] - P[1]) * inv(Q[0] - P[0], p) % p
        x = (l * l - P[0] - Q[0]) % p
        return (x, (l * (P[0] - x) - P[1]) % p)
    def mul(s, k, P):
        R = None
        while k:
            if k & 1: R = s.add(R, P)
            P = s.add(P, P); k >>= 1
        return R
    def neg(s, P): return None if P is None else (P[0], (-P[1]) % s.p)

# ------------------------------------------------------------------ 0x01 ECRECOVER
SP = 2**256 - 2**32 - 977
SN = 0xFFFFFFFFFFFFFFFFFFFFFFFFFFFFFFFEBAAEDCE6AF48A03BBFD25E8CD0364141
SG = (0x79BE667EF9DCBBAC55A06295CE870B07029BFCDB2DCE28D959F2815B16F81798, 0x483ADA7726A3C4655DA4FBFC0E1108A8FD17B448A68554199C47D08FFB10D4B8)
SECP = Curve(SP, 7, SN)
assert SECP.on(SG) and SECP.mul(SN, SG) is None
def sign(d, z, k):
    R = SECP.mul(k, SG)
    r = R[0] % SN
    s = inv(k, SN) * (z + r * d) % SN
    return 27 + (R[1] & 1), r, s
def recover(z, v, r, s):
    """public key per the precompile's definition, or None"""
    if v not in (27, 28) or not (1 <= r < SN) or not (1 <= s < SN): return None
    x = r  # (the r + n candidate is not used by Ethereum)
    y2 = (x ** 3 + 7) % SP
    y = pow(y2, (SP + 1) // 4, SP)
    if y * y % SP != y2: return None
    if (y & 1) != (v - 27): y = SP - y
    R = (x, y)
    ri = inv(r, SN)
    Q = SECP.add(SECP.mul(s * ri % SN, R), SECP.mul((-z * ri) % SN, SG))
    return Q
def ecrecover_expect(inp):
    d = (inp + b"\0" * 128)[:128]
    z = int.from_bytes(d[0:32], "big"); vv = int.from_bytes(d[32:64], "big")
    r = int.from_bytes(d[64:96], "big"); s = int.from_bytes(d[96:128], "big")
    Q = recover(z, vv, r, s) if vv in (27, 28) else None
    if Q is None: return ok(3000, b"")
    addr = keccak256(b32(Q[0]) + b32(Q[1]))[12:]
    return ok(3000, b"\0" * 12 + addr)
def gen_ecrecover():
    hashes = [int.from_bytes(hashlib.sha256(b"msg%d" % i).digest(), "big") for i in range(2)] + [0, SN]
    keys = [1, 2, SN - 1, 0xC0FFEE]
    sigs = []
    for z in hashes[:2]:
        for d in keys:
            for k in (1, 2, 0xABCDEF, SN - 2):
                sigs.append((z,) + sign(d, z, k))
    base = []
    for (z, v, r, s) in sigs:
        base.append((z, v, r, s))
        base.append((z, v, r, SN - s))          # high-s twin (other recovery id would be needed: recovers another key)
        base.append((z, 55 - v, r, s))          # flipped v
    edge = [0, 1, SN - 1, SN, SN + 1, SN // 2, SN // 2 + 1, 2**256 - 1]
    z0, v0, r0, s0 = sigs[0]
    vs = [0, 1, 26, 27, 28, 29, 27 + 256, 27 + (1 << 255), (27 << 8), 2**256 - 1]
    for v in vs:
        for r in edge + [r0]:
            for s in edge + [s0]:
                base.append((z0, v, r, s))
    if TIER == "thorough":
        for z in hashes:
            for r in edge + [r0, SP, SP - 1, 5, 7]:
                for s in edge + [s0]:
                    for v in (27, 28):
                        base.append((z, v, r, s))
    seen = set()
    for (z, v, r, s) in base:
        inp = b32(z % 2**256) + b32(v % 2**256) + b32(r % 2**256) + b32(s % 2**256)
        if inp in seen: continue
        seen.add(inp)
        emit(1, ALL, inp, ecrecover_expect(inp), "ecrecover")
    # length handling: truncated (right-padded with zeros) and over-long inputs
    z, v, r, s = sigs[3]
    full = b32(z) + b32(v) + b32(r) + b32(s)
    lens = range(0, 161) if TIER == "thorough" else list(range(0, 161, 7)) + [31, 32, 33, 63, 64, 65, 95, 96, 97, 127, 128, 129, 160]
    for L in lens:
        inp = (full + b"\xff" * 40)[:L]
        emit(1, ALL, inp, ecrecover_expect(inp), "ecrecover length %d" % L)

# ------------------------------------------------------------------ 0x02 0x03 0x04 hashes and identity
def pattern(kind, n):
    if kind == 0: return b"\0" * n
    if kind == 1: return b"\xff" * n
    return bytes((i * 7 + 3) & 0xFF for i in range(n))
def gen_hashes():
    maxlen = 300
    step = 1 if TIER == "thorough" else 1
    for n in range(0, maxlen + 1, step):
        for kind in range(3):
            d = pattern(kind, n)
            emit(2, ALL, d, ok(60 + 12 * words(n), hashlib.sha256(d).digest()), "sha256")
            emit(3, ALL, d, ok(600 + 120 * words(n), b"\0" * 12 + hashlib.new("ripemd160", d).digest()), "ripemd160")
            emit(4, ALL, d, ok(15 + 3 * words(n), d), "identity")

# ------------------------------------------------------------------ 0x05 MODEXP
def modexp_expect(inp, fork):
    def rd(off, l):
        chunk = inp[off:off + l]
        return chunk + b"\0" * (l - len(chunk))
    bl = int.from_bytes(rd(0, 32), "big"); el = int.from_bytes(rd(32, 32), "big"); ml = int.from_bytes(rd(64, 32), "big")
    # exponent head (first 32 bytes of the exponent), without materialising huge operands
    if bl < 2**40:
        head = int.from_bytes(rd(96 + bl, min(32, el)), "big") if el else 0
    else:
        head = 0
    if el <= 32: adj = max(head.bit_length() - 1, 0)
    else: adj = 8 * (el - 32) + max(head.bit_length() - 1, 0)
    mx = max(bl, ml)
    if fork == "old":
        if mx <= 64: c = mx * mx
        elif mx <= 1024: c = mx * mx // 4 + 96 * mx - 3072
        else: c = mx * mx // 16 + 480 * mx - 199680
        gas = c * max(adj, 1) // 20
    else:
        w = (mx + 7) // 8
        gas = max(200, w * w * max(adj, 1) // 3)
    if bl == 0 and ml == 0:
        # EIP-198: "if base length and modulus length are zero the result is empty"; gas per the formula above
        return gas, b""
    if gas > 2**64 - 1 or max(bl, el, ml) > 2**20:
        return gas, None
    b = int.from_bytes(rd(96, bl), "big"); e = int.from_bytes(rd(96 + bl, el), "big"); m = int.from_bytes(rd(96 + bl + el, ml), "big")
    res = 0 if m == 0 else pow(b, e, m)
    return gas, res.to_bytes(ml, "big") if ml else b""
def gen_modexp():
    small = [0, 1, 2, 31, 32, 33, 64, 65]
    big_lens = [1024, 1025, 2**32, 2**64 - 1, 2**64, 2**256 - 1]
    vals = [b"", b"\x00", b"\x01", b"\x02", b"\x03", b"\xff", b"\x01\x00", b"\xff" * 32, b"\x7f" + b"\xff" * 32, b"\x00" * 31 + b"\x05"]
    cases = []
    for b in vals[:8]:
        for e in vals:
            for m in vals[:9]:
                cases.append(b32(len(b)) + b32(len(e)) + b32(len(m)) + b + e + m)
    # declared lengths that differ from the supplied data (right padding / truncation)
    for bl in small:
        for el in small[:6]:
            for ml in small:
                data = bytes((i * 11 + 5) & 0xFF for i in range(70))
                cases.append(b32(bl) + b32(el) + b32(ml) + data)
                cases.append(b32(bl) + b32(el) + b32(ml) + data[:3])
    for L in big_lens:
        for pos in range(3):
            ls = [1, 1, 1]; ls[pos] = L
            cases.append(b32(ls[0]) + b32(ls[1]) + b32(ls[2]) + b"\x02\x03\x05")
        cases.append(b32(0) + b32(L) + b32(0))
        cases.append(b32(L) + b32(L) + b32(L))
    # short headers
    for n in (0, 1, 31, 32, 64, 95, 96, 97):
        cases.append((b32(1) + b32(1) + b32(1) + b"\x03\x05\x07")[:n])
    # exponent longer than 32 bytes (adjusted exponent length uses the head only)
    for el in (33, 40, 64):
        cases.append(b32(1) + b32(el) + b32(1) + b"\x03" + b"\x01" + b"\x00" * (el - 1) + b"\x0b")
        cases.append(b32(2) + b32(el) + b32(2) + b"\x01\x03" + b"\x00" * (el - 1) + b"\x02" + b"\x01\x01")
    seen = set()
    for c in cases:
        if c in seen: continue
        seen.add(c)
        for fork, forks in (("old", ["BYZANTIUM", "ISTANBUL"]), ("new", since("BERLIN"))):
            gas, out = modexp_expect(c, fork)
            if out is None:
                # not computable within any gas limit a transaction can have: must fail (out of gas or a length error)
                emit(5, forks, c, {"err_or_gas_above": gas if gas < 2**64 else 2**64 - 1}, "modexp huge")
            else:
                emit(5, forks, c, ok(gas, out), "modexp")

# ------------------------------------------------------------------ 0x06-0x08 BN254
BP = 21888242871839275222246405745257275088696311157297823662689037894645226208583
BR = 21888242871839275222246405745257275088548364400416034343698204186575808495617
BN = Curve(BP, 3, BR)
BG1 = (1, 2)
assert BN.on(BG1) and BN.mul(BR, BG1) is None
def enc_g1(P): return b32(0) + b32(0) if P is None else b32(P[0]) + b32(P[1])
# F_p^2 = F_p[i]/(i^2+1); elements (a, b) = a + b i
def f2add(x, y, p): return ((x[0] + y[0]) % p, (x[1] + y[1]) % p)
def f2sub(x, y, p): return ((x[0] - y[0]) % p, (x[1] - y[1]) % p)
def f2mul(x, y, p): return ((x[0] * y[0] - x[1] * y[1]) % p, (x[0] * y[1] + x[1] * y[0]) % p)
def f2inv(x, p):
    d = inv(x[0] * x[0] + x[1] * x[1], p)
    return (x[0] * d % p, (-x[1]) * d % p)
class Curve2:
    def __init__(s, p, b): s.p, s.b = p, b
    def on(s, P):
        if P is None: return True
        x, y = P
        return f2sub(f2mul(y, y, s.p), f2add(f2mul(f2mul(x, x, s.p), x, s.p), s.b, s.p), s.p) == (0, 0)
    def add(s, P, Q):
        p = s.p
        if P is None: return Q
        if Q is None: return P
        if P[0] == Q[0]:
            if f2add(P[1], Q[1], p) == (0, 0): return None
            l = f2mul(f2mul((3, 0), f2mul(P[0], P[0], p), p), f2inv(f2mul((2, 0), P[1], p), p), p)
        else:
            l = f2mul(f2sub(Q[1], P[1], p), f2inv(f2sub(Q[0], P[0], p), p), p)
        x = f2sub(f2sub(f2mul(l, l, p), P[0], p), Q[0], p)
        return (x, f2sub(f2mul(l, f2sub(P[0], x, p), p), P[1], p))
    def mul(s, k, P):
        R = None
        while k:
            if k & 1: R = s.add(R, P)
            P = s.add(P, P); k >>= 1
        return R
B2B = f2mul((3, 0), f2inv((9, 1), BP), BP)
BN2 = Curve2(BP, B2B)
BG2 = ((10857046999023057135944570762232829481370756359578518086990519993285655852781, 11559732032986387107991004021392285783925812861821192530917403151452391805634),
       (8495653923123431417604973247489272438418190587263600148770280649306958101930, 4082367875863433681332203403145435568316851327593401208105741076214120093531))
assert BN2.on(BG2) and BN2.mul(BR, BG2) is None
def enc_g2(P):
    if P is None: return b32(0) * 4
    (xa, xb), (ya, yb) = P
    return b32(xb) + b32(xa) + b32(yb) + b32(ya)   # EIP-197: imaginary part first
def gen_bn():
    ks = [0, 1, 2, 3, 5, BR - 1, BR - 2] if TIER == "quick" else [0, 1, 2, 3, 4, 5, 7, 100, BR - 1, BR - 2, BR - 3]
    pts = {k: BN.mul(k % BR, BG1) for k in ks}
    add_gas = {"old": 500, "new": 150}; mul_gas = {"old": 40000, "new": 6000}
    fk = (("old", ["BYZANTIUM"]), ("new", since("ISTANBUL")))
    for a in ks:
        for b in ks:
            inp = enc_g1(pts[a]) + enc_g1(pts[b])
            for f, forks in fk: emit(6, forks, inp, ok(add_gas[f], enc_g1(BN.add(pts[a], pts[b]))), "bn add %d+%d" % (a, b))
    scalars = [0, 1, 2, 3, BR - 1, BR, BR + 1, 2**256 - 1, 2**255]
    for a in ks:
        for s in scalars:
            inp = enc_g1(pts[a]) + b32(s)
            for f, forks in fk: emit(7, forks, inp, ok(mul_gas[f], enc_g1(BN.mul(s, pts[a]))), "bn mul")
    # malformed: off curve, coordinates >= p, truncated / over-long inputs
    bad = [b32(1) + b32(3), b32(BP) + b32(2), b32(1) + b32(BP + 2), b32(BP + 1) + b32(2), b32(0) + b32(1), b32(2**256 - 1) + b32(2**256 - 1)]
    for bp in bad:
        for f, forks in fk:
            emit(6, forks, bp + enc_g1(BG1), ERR, "bn add bad point")
            emit(6, forks, enc_g1(BG1) + bp, ERR, "bn add bad point 2")
            emit(7, forks, bp + b32(2), ERR, "bn mul bad point")
    P2 = BN.mul(2, BG1)
    full = enc_g1(BG1) + enc_g1(P2)
    for L in (0, 1, 31, 32, 63, 64, 65, 96, 127, 128, 129, 192):
        inp = (full + b"\x07" * 64)[:L]
        d = (inp + b"\0" * 128)[:128]
        A = (int.from_bytes(d[0:32], "big"), int.from_bytes(d[32:64], "big")); Bq = (int.from_bytes(d[64:96], "big"), int.from_bytes(d[96:128], "big"))
        A = None if A == (0, 0) else A; Bq = None if Bq == (0, 0) else Bq
        valid = all(Q is None or (Q[0] < BP and Q[1] < BP and BN.on(Q)) for Q in (A, Bq))
        for f, forks in fk:
            emit(6, forks, inp, ok(add_gas[f], enc_g1(BN.add(A, Bq))) if valid else ERR, "bn add length %d" % L)
        d = (inp + b"\0" * 96)[:96]
        A = (int.from_bytes(d[0:32], "big"), int.from_bytes(d[32:64], "big")); A = None if A == (0, 0) else A
        s = int.from_bytes(d[64:96], "big")
        valid = A is None or (A[0] < BP and A[1] < BP and BN.on(A))
        for f, forks in fk:
            emit(7, forks, inp, ok(mul_gas[f], enc_g1(BN.mul(s, A))) if valid else ERR, "bn mul length %d" % L)
    # pairing: sum a_i * b_i == 0 (mod r) <=> product of pairings is one
    pg = {"old": (100000, 80000), "new": (45000, 34000)}
    combos = [[], [(0, 0)], [(0, 1)], [(1, 0)], [(1, 1)], [(1, 1), (BR - 1, 1)], [(1, 1), (1, BR - 1)], [(2, 3), (BR - 6, 1)], [(2, 3), (BR - 5, 1)],
              [(1, 2), (1, 3), (BR - 5, 1)], [(1, 2), (1, 3), (BR - 4, 1)], [(3, 1), (1, BR - 3)], [(0, 5), (5, 0)]]
    if TIER == "thorough":
        combos += [[(a, b), ((-(a * b)) % BR, 1)] for a in (1, 2, 7) for b in (1, 2, 5)] + [[(a, b), ((-(a * b) + 1) % BR, 1)] for a in (1, 2, 7) for b in (1, 2, 5)]
    for combo in combos:
        inp = b"".join(enc_g1(BN.mul(a % BR, BG1)) + enc_g2(BN2.mul(b % BR, BG2)) for a, b in combo)
        one = sum(a * b for a, b in combo) % BR == 0
        for f, forks in fk:
            base, per = pg[f]
            emit(8, forks, inp, ok(base + per * len(combo), b32(1 if one else 0)), "bn pairing %s" % (combo,))
    for f, forks in fk:
        g2 = enc_g2(BG2)
        emit(8, forks, enc_g1(BG1) + g2[:-1], ERR, "pairing length 191")
        emit(8, forks, enc_g1(BG1) + g2 + b"\0", ERR, "pairing length 193")
        emit(8, forks, b32(1) + b32(3) + g2, ERR, "pairing G1 off curve")
        emit(8, forks, enc_g1(BG1) + b32(1) + b32(2) + b32(3) + b32(4), ERR, "pairing G2 off curve")
        emit(8, forks, enc_g1(BG1) + b32(BP) + g2[32:], ERR, "pairing G2 coordinate >= p")
        # a pair whose one point is the point at infinity still has its other point validated
        emit(8, forks, enc_g1(None) + b32(1) + b32(1) + b32(1) + b32(1), ERR, "pairing G1 = infinity, G2 off curve")
        emit(8, forks, b32(1) + b32(3) + enc_g2(None), ERR, "pairing G1 off curve, G2 = infinity")
        emit(8, forks, enc_g1(None) + b32(BP) + g2[32:], ERR, "pairing G1 = infinity, G2 coordinate >= p")
        emit(8, forks, enc_g1(BG1) + g2 + enc_g1(None) + b32(1) + b32(2) + b32(3) + b32(4), ERR, "second pair: G1 = infinity, G2 off curve")
        base, per = pg[f]
        emit(8, forks, enc_g1(None) + g2, ok(base + per, b32(1)), "pairing (infinity, G2)")
        emit(8, forks, enc_g1(BG1) + enc_g2(None), ok(base + per, b32(1)), "pairing (G1, infinity)")

# ------------------------------------------------------------------ 0x09 BLAKE2F
IV = [0x6A09E667F3BCC908, 0xBB67AE8584CAA73B, 0x3C6EF372FE94F82B, 0xA54FF53A5F1D36F1, 0x510E527FADE682D1, 0x9B05688C2B3E6C1F, 0x1F83D9ABFB41BD6B, 0x5BE0CD19137E2179]
SIGMA = [[0, 1, 2, 3, 4, 5, 6, 7, 8, 9, 10, 11, 12, 13, 14, 15], [14, 10, 4, 8, 9, 15, 13, 6, 1, 12, 0, 2, 11, 7, 5, 3], [11, 8, 12, 0, 5, 2, 15, 13, 10, 14, 3, 6, 7, 1, 9, 4],
         [7, 9, 3, 1, 13, 12, 11, 14, 2, 6, 5, 10, 4, 0, 15, 8], [9, 0, 5, 7, 2, 4, 10, 15, 14, 1, 11, 12, 6, 8, 3, 13], [2, 12, 6, 10, 0, 11, 8, 3, 4, 13, 7, 5, 15, 14, 1, 9],
         [12, 5, 1, 15, 14, 13, 4, 10, 0, 7, 6, 3, 9, 2, 8, 11], [13, 11, 7, 14, 12, 1, 3, 9, 5, 0, 15, 4, 8, 6, 2, 10], [6, 15, 14, 9, 11, 3, 0, 8, 12, 2, 13, 7, 1, 4, 10, 5],
         [10, 2, 8, 4, 7, 6, 1, 5, 15, 11, 9, 14, 3, 12, 13, 0]]
def ror(x, n): return ((x >> n) | (x << (64 - n))) & M64
def blake2f(rounds, h, m, t, f):
    v = h[:] + IV[:]
    v[12] ^= t[0]; v[13] ^= t[1]
    if f: v[14] ^= M64
    def G(a, b, c, d, x, y):
        v[a] = (v[a] + v[b] + x) & M64; v[d] = ror(v[d] ^ v[a], 32)
        v[c] = (v[c] + v[d]) & M64; v[b] = ror(v[b] ^ v[c], 24)
        v[a] = (v[a] + v[b] + y) & M64; v[d] = ror(v[d] ^ v[a], 16)
        v[c] = (v[c] + v[d]) & M64; v[b] = ror(v[b] ^ v[c], 63)
    for i in range(rounds):
        s = SIGMA[i % 10]
        G(0, 4, 8, 12, m[s[0]], m[s[1]]); G(1, 5, 9, 13, m[s[2]], m[s[3]]); G(2, 6, 10, 14, m[s[4]], m[s[5]]); G(3, 7, 11, 15, m[s[6]], m[s[7]])
        G(0, 5, 10, 15, m[s[8]], m[s[9]]); G(1, 6, 11, 12, m[s[10]], m[s[11]]); G(2, 7, 8, 13, m[s[12]], m[s[13]]); G(3, 4, 9, 14, m[s[14]], m[s[15]])
    return [h[i] ^ v[i] ^ v[i + 8] for i in range(8)]
# self-check against hashlib.blake2b on the empty message (12 rounds, final block)
_h = IV[:]; _h[0] ^= 0x01010040
_o = blake2f(12, _h, [0] * 16, [0, 0], True)
assert b"".join(x.to_bytes(8, "little") for x in _o) == hashlib.blake2b(b"").digest()
def gen_blake():
    forks = since("ISTANBUL")
    h = IV[:]; h[0] ^= 0x01010040
    msgs = [[0] * 16, [(i * 0x0101010101010101) & M64 for i in range(16)], [int.from_bytes(b"abc" + b"\0" * 5, "little")] + [0] * 15]
    for rounds in ([0, 1, 2, 10, 12, 13, 100] if TIER == "quick" else [0, 1, 2, 9, 10, 11, 12, 13, 20, 100, 1000]):
        for m in msgs:
            for t in ([0, 0], [3, 0], [M64, M64]):
                for f in (0, 1):
                    inp = rounds.to_bytes(4, "big") + b"".join(x.to_bytes(8, "little") for x in h) + b"".join(x.to_bytes(8, "little") for x in m) + t[0].to_bytes(8, "little") + t[1].to_bytes(8, "little") + bytes([f])
                    out = b"".join(x.to_bytes(8, "little") for x in blake2f(rounds, h, m, t, bool(f)))
                    emit(9, forks, inp, ok(rounds, out), "blake2f")
    good = (12).to_bytes(4, "big") + b"\0" * 208 + b"\x01"
    for bad_f in (2, 3, 0x80, 0xff):
        emit(9, forks, good[:-1] + bytes([bad_f]), ERR, "blake2f final flag %d" % bad_f)
    for L in (0, 1, 212, 214, 4, 100, 426):
        emit(9, forks, (good + good)[:L], ERR, "blake2f length %d" % L)
    # many rounds with too little gas is an out-of-gas error, never a long computation
    emit(9, forks, (2**32 - 1).to_bytes(4, "big") + b"\0" * 208 + b"\x01", {"err_or_gas_above": 2**32 - 1, "limit": 100000}, "blake2f 2^32-1 rounds")

# ------------------------------------------------------------------ BLS12-381 (0x0a KZG, 0x0b.. EIP-2537)
LP = 0x1a0111ea397fe69a4b1ba7b6434bacd764774b84f38512bf6730d2a0f6b0f6241eabfffeb153ffffb9feffffffffaaab
LR = 0x73eda753299d7d483339d80809a1d80553bda402fffe5bfeffffffff00000001
BLS = Curve(LP, 4, LR)
LG1 = (0x17f1d3a73197d7942695638c4fa9ac0fc3688c4f9774b905a14e3a3f171bac586c55e83ff97a1aeffb3af00adb22c6bb,
       0x08b3f481e3aaa0f1a09e30ed741d8ae4fcf5e095d5d00af600db18cb2c04b3edd03cc744a2888ae40caa232946c5e7e1)
assert BLS.on(LG1) and BLS.mul(LR, LG1) is None
BLS2 = Curve2(LP, (4, 4))
LG2 = ((0x024aa2b2f08f0a91260805272dc51051c6e47ad4fa403b02b4510b647ae3d1770bac0326a805bbefd48056c8c121bdb8,
        0x13e02b6052719f607dacd3a088274f65596bd0d09920b61ab5da61bbdc7f5049334cf11213945d57e5ac7d055d042b7e),
       (0x0ce5d527727d6e118cc9cdc6da2e351aadfd9baa8cbdd3a76d429a695160d12c923ac9cc3baca289e193548608b82801,
        0x0606c4a02ea734cc32acd2b02bc28b99cb3e287e85a763af267492ab572e99ab3f370d275cec1da1aaa9075ff05f79be))
assert BLS2.on(LG2) and BLS2.mul(LR, LG2) is None
def compress_g1(P):
    if P is None: return bytes([0xc0]) + b"\0" * 47
    b = bytearray(P[0].to_bytes(48, "big"))
    b[0] |= 0x80
    if P[1] > (LP - 1) // 2: b[0] |= 0x20
    return bytes(b)
KZG_OUT = b32(4096) + b32(LR)
def gen_kzg():
    forks = since("CANCUN")
    def vh(c): return b"\x01" + hashlib.sha256(c).digest()[1:]
    cs = [0, 1, 2, 5, LR - 1] if TIER == "quick" else [0, 1, 2, 3, 5, 1000, LR - 1, LR - 2]
    zs = [0, 1, 7, LR - 1]
    first = None
    for c in cs:
        com = compress_g1(BLS.mul(c, LG1)); proof = compress_g1(None)
        for z in zs:
            inp = vh(com) + b32(z) + b32(c) + com + proof
            emit(10, forks, inp, ok(50000, KZG_OUT), "kzg constant polynomial c=%d z=%d" % (c % 1000, z % 1000))
            if first is None and c == 5: first = (com, proof, z, c, inp)
            # wrong claimed value
            emit(10, forks, vh(com) + b32(z) + b32((c + 1) % LR) + com + proof, ERR, "kzg wrong y")
        # non-canonical field elements are rejected for every commitment, the point at infinity included
        for badz in (LR, LR + 1, 2**256 - 1):
            emit(10, forks, vh(com) + b32(badz) + b32(c) + com + proof, ERR, "kzg c=%d z non-canonical" % (c % 1000))
        if LR + c < 2**256:
            emit(10, forks, vh(com) + b32(zs[1]) + b32(LR + c) + com + proof, ERR, "kzg c=%d y non-canonical" % (c % 1000))
    com, proof, z, c, good = first
    emit(10, forks, b"\x02" + good[1:], ERR, "kzg wrong hash version")
    emit(10, forks, good[:31] + bytes([good[31] ^ 1]) + good[32:], ERR, "kzg wrong versioned hash")
    emit(10, forks, vh(com) + b32(LR) + b32(c) + com + proof, ERR, "kzg z = modulus (non-canonical)")
    emit(10, forks, vh(com) + b32(z) + b32(LR + c) + com + proof, ERR, "kzg y >= modulus (non-canonical)")
    emit(10, forks, vh(com) + b32(2**256 - 1) + b32(c) + com + proof, ERR, "kzg z = 2^256-1")
    badcom = bytes([com[0] & 0x7f]) + com[1:]
    emit(10, forks, vh(badcom) + b32(z) + b32(c) + badcom + proof, ERR, "kzg commitment without compression flag")
    offcurve = bytearray(com); offcurve[47] ^= 1
    emit(10, forks, vh(bytes(offcurve)) + b32(z) + b32(c) + bytes(offcurve) + proof, ERR, "kzg commitment x not on curve / other point")
    gproof = compress_g1(LG1)
    emit(10, forks, vh(com) + b32(z) + b32(c) + com + gproof, ERR, "kzg wrong proof")
    for L in (0, 1, 32, 96, 144, 191, 193, 384):
        emit(10, forks, (good + good)[:L], ERR, "kzg length %d" % L)
    # every single-byte flip in commitment / proof / y of a valid input is rejected (or is another valid statement: none is)
    positions = range(64, 192) if TIER == "thorough" else range(64, 192, 5)
    for i in positions:
        b = bytearray(good); b[i] ^= 0x01
        if i >= 96 and i < 144:  # commitment changed: keep the versioned hash consistent so that the proof check decides
            b[0:32] = vh(bytes(b[96:144]))
        emit(10, forks, bytes(b), ERR, "kzg flipped byte %d" % i)

def fp64(x): return b"\0" * 16 + x.to_bytes(48, "big")
def enc_l1(P): return b"\0" * 128 if P is None else fp64(P[0]) + fp64(P[1])
def enc_l2(P): return b"\0" * 256 if P is None else fp64(P[0][0]) + fp64(P[0][1]) + fp64(P[1][0]) + fp64(P[1][1])
def gen_bls():
    forks = ["PRAGUE"]
    ks = [0, 1, 2, 3, LR - 1] if TIER == "quick" else [0, 1, 2, 3, 5, 9, LR - 1, LR - 2]
    p1 = {k: BLS.mul(k % LR, LG1) for k in ks}
    p2 = {k: BLS2.mul(k % LR, LG2) for k in ks}
    for a in ks:
        for b in ks:
            emit(0x0b, forks, enc_l1(p1[a]) + enc_l1(p1[b]), ok(375, enc_l1(BLS.add(p1[a], p1[b]))), "g1add")
            emit(0x0d, forks, enc_l2(p2[a]) + enc_l2(p2[b]), ok(600, enc_l2(BLS2.add(p2[a], p2[b]))), "g2add")
    scalars = [0, 1, 2, LR - 1, LR, LR + 1, 2**256 - 1]
    for a in ks:
        for s in scalars:
            emit(0x0c, forks, enc_l1(p1[a]) + b32(s), ok(12000, enc_l1(BLS.mul(s, p1[a]))), "g1msm k=1")
            emit(0x0e, forks, enc_l2(p2[a]) + b32(s), ok(22500, enc_l2(BLS2.mul(s, p2[a]))), "g2msm k=1")
    for (a, s), (b, t) in [((1, 2), (2, 3)), ((1, 1), (LR - 1, 1)), ((2, 0), (3, 5)), ((0, 7), (1, LR - 1))]:
        res = BLS.add(BLS.mul(s, BLS.mul(a, LG1)), BLS.mul(t, BLS.mul(b, LG1)))
        emit(0x0c, forks, enc_l1(BLS.mul(a, LG1)) + b32(s) + enc_l1(BLS.mul(b, LG1)) + b32(t), ok(2 * 12000 * 949 // 1000, enc_l1(res)), "g1msm k=2")
        res2 = BLS2.add(BLS2.mul(s, BLS2.mul(a, LG2)), BLS2.mul(t, BLS2.mul(b, LG2)))
        emit(0x0e, forks, enc_l2(BLS2.mul(a, LG2)) + b32(s) + enc_l2(BLS2.mul(b, LG2)) + b32(t), ok(2 * 22500 * 1000 // 1000, enc_l2(res2)), "g2msm k=2")
    # malformed encodings
    g = enc_l1(LG1)
    bads = [b"\x01" + g[1:], g[:64] + b"\x01" + g[65:], fp64(LP) + g[64:], g[:64] + fp64(LP + 1), fp64(1) + fp64(3), g[:127]]
    for bad in bads:
        emit(0x0b, forks, bad + g, ERR, "g1add malformed")
        emit(0x0b, forks, g + bad, ERR, "g1add malformed 2")
        emit(0x0c, forks, bad + b32(1), ERR, "g1msm malformed")
    for L in (0, 1, 127, 128, 255, 257, 384):
        emit(0x0b, forks, (g + g + g)[:L], ERR, "g1add length %d" % L)
    for L in (0, 1, 159, 161, 320 - 1):
        emit(0x0c, forks, (g + b32(1) + g + b32(1))[:L], ERR, "g1msm length %d" % L)
    g2 = enc_l2(LG2)
    bads2 = [b"\x01" + g2[1:], fp64(LP) + g2[64:], g2[:192] + fp64(LP), fp64(1) + fp64(2) + fp64(3) + fp64(4), g2[:255]]
    for bad in bads2:
        emit(0x0d, forks, bad + g2, ERR, "g2add malformed")
        emit(0x0e, forks, bad + b32(1), ERR, "g2msm malformed")
    for L in (0, 1, 511, 513):
        emit(0x0d, forks, (g2 + g2 + g2)[:L], ERR, "g2add length %d" % L)
    emit(0x0e, forks, b"", ERR, "g2msm empty")
    # a point on the curve but outside the r-order subgroup must be rejected by MSM and pairing (cofactor > 1)
    x = 1
    while True:
        y2 = (x ** 3 + 4) % LP
        y = pow(y2, (LP + 1) // 4, LP)
        if y * y % LP == y2 and BLS.mul(LR, (x, y)) is not None: break
        x += 1
    outside = (x, y)
    emit(0x0c, forks, enc_l1(outside) + b32(1), ERR, "g1msm point outside the subgroup")
    emit(0x0b, forks, enc_l1(outside) + enc_l1(None), ok(375, enc_l1(outside)), "g1add does not check the subgroup")
    emit(0x0f, forks, enc_l1(outside) + g2, ERR, "pairing G1 outside the subgroup")
    # pairing
    combos = [[(0, 0)], [(0, 1)], [(1, 0)], [(1, 1)], [(1, 1), (LR - 1, 1)], [(1, 1), (1, LR - 1)], [(2, 3), (LR - 6, 1)], [(2, 3), (LR - 5, 1)], [(1, 2), (1, 3), (LR - 5, 1)], [(1, 2), (1, 3), (LR - 4, 1)]]
    for combo in combos:
        inp = b"".join(enc_l1(BLS.mul(a % LR, LG1)) + enc_l2(BLS2.mul(b % LR, LG2)) for a, b in combo)
        one = sum(a * b for a, b in combo) % LR == 0
        emit(0x0f, forks, inp, ok(32600 * len(combo) + 37700, b32(1 if one else 0)), "bls pairing %s" % (combo,))
    emit(0x0f, forks, b"", ERR, "bls pairing empty input")
    emit(0x0f, forks, enc_l1(None) + fp64(1) + fp64(2) + fp64(3) + fp64(4), ERR, "bls pairing G1 = infinity, G2 off curve")
    emit(0x0f, forks, fp64(1) + fp64(3) + enc_l2(None), ERR, "bls pairing G1 off curve, G2 = infinity")
    emit(0x0f, forks, enc_l1(None) + g2, ok(32600 + 37700, b32(1)), "bls pairing (infinity, G2)")
    emit(0x0f, forks, g + enc_l2(None), ok(32600 + 37700, b32(1)), "bls pairing (G1, infinity)")
    emit(0x0c, forks, enc_l1(None) + b32(5) + fp64(1) + fp64(3) + b32(0), ERR, "g1msm second point off curve with scalar 0")
    emit(0x0f, forks, (g + g2)[:-1], ERR, "bls pairing length 383")
    # map to curve: only gas, output length and input validation are decided here
    for v in (0, 1, 2, LP - 1):
        emit(0x10, forks, fp64(v), ok_any(5500, 128), "map fp to g1")
        emit(0x11, forks, fp64(v) + fp64((v + 1) % LP), ok_any(23800, 256), "map fp2 to g2")
    emit(0x10, forks, fp64(LP), ERR, "map fp >= p"); emit(0x10, forks, b"\x01" + fp64(1)[1:], ERR, "map fp padding")
    emit(0x10, forks, fp64(1)[:63], ERR, "map fp length 63"); emit(0x10, forks, fp64(1) + b"\0", ERR, "map fp length 65")
    emit(0x11, forks, fp64(1) + fp64(LP), ERR, "map fp2 >= p"); emit(0x11, forks, fp64(1), ERR, "map fp2 length 64")

gen_ecrecover(); gen_hashes(); gen_modexp(); gen_bn(); gen_blake(); gen_kzg(); gen_bls()
w = sys.stdout.write
for o in OUT:
    w(json.dumps(o)); w("\n")
